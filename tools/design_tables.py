"""Prints the generated tables of DESIGN.md §6 (obligations+bounds, findings, seeded changes)."""
import json, glob, os, sys, importlib
sys.path[:0] = ['/verif', '/repo']
os.environ.setdefault('VERIF_TIER_EFFECTIVE', 'quick')
from vf import run
for i in range(1, 21): importlib.import_module(f'vf.props.c{i:02d}')
import io, contextlib
buf = io.StringIO()
_stdout = sys.stdout; sys.stdout = buf
print("### 6.1 Obligations and bounds as built\n")
for prop in sorted(run.REGISTRY):
    print(f"**{prop}**\n")
    for o in run.REGISTRY[prop]:
        b = o.bounds
        if isinstance(b, dict): b = "quick: " + b.get('quick','') + " / thorough: " + b.get('thorough','')
        print(f"* `{prop}.{o.name}` - {b}")
    print()
k = json.load(open('/verif/known_findings.json'))['findings']
nf = sum(1 for f in k if f["status"]=="fixed"); nk = sum(1 for f in k if f["status"]=="known")
print(f"### 6.2 Findings: {nf} fixed (one `fix:` commit each), {nk} known\n\n| property | status | commit | what |\n|---|---|---|---|")
for f in k:
    print(f"| {f['property']} | {f['status']} | {f.get('commit','-')} | {f['what'].replace('|','/')[:400]} |")
print("\n### 6.3 Seeded changes and the obligations that detect them\n\n| id | change | detected by |\n|---|---|---|")
for d in sorted(glob.glob('/verif/seeded/*/meta.json')):
    m = json.load(open(d)); i = os.path.basename(os.path.dirname(d))
    print(f"| {i} | {m.get('summary','').replace('|','/')[:260]} | {m.get('detected_by','').replace('|','/')} |")

sys.stdout = _stdout
p = '/verif/DESIGN.md'
d = open(p).read()
a = d.index('<!-- GENERATED:BEGIN'); a = d.index('\n', a) + 1
b = d.index('<!-- GENERATED:END -->')
open(p, 'w').write(d[:a] + buf.getvalue() + '\n' + d[b:])
print("DESIGN.md tables regenerated")

#!/bin/bash
# usage: tools/keep_mut.sh <srcdir> <seed-id> <PROP> "<caught by: obligation names or MISSED>"
set -u
src="$1"; id="$2"; prop="$3"; caught="$4"
res=$(/verif/tools/confirm_mut.sh "$src" "$id" 2>&1 | grep RESULT)
echo "$res"
case "$res" in *"demo_clean=0 demo_mutated=1 unexpected_test_failures=[]"*|*"demo_clean=0 demo_mutated=1 unexpected_test_failures=[ ]"*) ;; *) echo "NOT KEPT"; exit 1;; esac
d=/verif/seeded/$id; mkdir -p "$d"
cp "$src/patch.diff" "$d/patch.diff"; cp "$src/demo.py" "$d/demo.py"
/verif/.venv/bin/python - "$src/meta.json" "$d/meta.json" "$prop" "$caught" "$res" <<'PY'
import json,sys
src,dst,prop,caught,res=sys.argv[1:6]
try: m=json.load(open(src))
except Exception: m={}
out=dict(property=prop, summary=m.get('summary',''), needs=m.get('needs',''), files=m.get('files',[]),
         author="independent sub-agent given only the property text and a scratch worktree",
         confirmed=res, confirmed_how="tools/confirm_mut.sh: scratch worktree of /repo HEAD; demo.py exit 0 unpatched, non-zero patched; full pytest suite with the patch: only the baseline's known failures",
         detected_by=caught)
json.dump(out,open(dst,'w'),indent=1)
PY
echo "KEPT $id"

#!/bin/bash
# usage: tools/revalidate_seeded.sh [ids...]  -- for every seeded change: patch applies to /repo HEAD (in a scratch worktree),
# demo.py passes on HEAD and fails with the patch, and the property's quick check reports a VIOLATION with the patch applied.
# Writes one line per seeded change to stdout.  Never touches /repo's working tree.
cd /verif
ids="$@"; [ -z "$ids" ] && ids=$(ls seeded)
for id in $ids; do
  d=/verif/seeded/$id; prop=${id%%-*}
  wt=/tmp/wt/reval_$id
  git -C /repo worktree add -q "$wt" HEAD || { echo "$id worktree-failed"; continue; }
  mkdir -p "$wt/_mut/x"; cp "$d/demo.py" "$wt/_mut/x/demo.py"
  ( cd "$wt" && PYTHONPATH="$wt" timeout 300 /venv/bin/python -W ignore _mut/x/demo.py >/dev/null 2>&1 ); clean=$?
  if ! ( cd "$wt" && git apply "$d/patch.diff" 2>/dev/null ); then echo "$id patch-does-not-apply"; git -C /repo worktree remove --force "$wt"; continue; fi
  ( cd "$wt" && PYTHONPATH="$wt" timeout 300 /venv/bin/python -W ignore _mut/x/demo.py >/dev/null 2>&1 ); mutated=$?
  out=$(VERIF_REPO="$wt" ./check "$prop" --tier quick --no-evidence 2>&1); rc=$?
  nv=$(echo "$out" | grep -c "^VIOLATION")
  obl=$(echo "$out" | grep -E "^  $prop\." | sed -E "s/^  ($prop\.[a-z_0-9]+).*/\1/" | sort | uniq -c | sort -rn | awk '{print $2"("$1")"}' | tr '\n' ' ')
  git -C /repo worktree remove --force "$wt"
  echo "$id demo_clean=$clean demo_mutated=$mutated check_exit=$rc violations=$nv by: $obl"
done

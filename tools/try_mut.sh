#!/bin/bash
# usage: tools/try_mut.sh <patch.diff> <PROP> [tier] [extra args]  -- apply a seeded change to /repo, run the check, undo.
set -u
patch="$1"; prop="$2"; tier="${3:-quick}"; shift 3 2>/dev/null || shift 2
cd /repo || exit 3
if ! git diff --quiet; then echo "repo dirty"; exit 3; fi
git apply "$patch" || { echo "patch does not apply"; exit 3; }
cd /verif && ./check "$prop" --tier "$tier" --no-evidence "$@" 2>&1 | grep -E "^(VIOLATION|KNOWN|HARNESS|INCONCLUSIVE|C[0-9]+ tier)|^  C" | cut -c1-300 | sort | uniq -c | sort -rn | head -${HEADN:-8}
rc=${PIPESTATUS[0]}
git -C /repo checkout -- . 
echo "exit=$rc"

#!/bin/bash
# usage: tools/confirm_mut.sh <dir with patch.diff demo.py meta.json> <seed-id>
# Confirms in a scratch worktree of /repo HEAD: demo passes unpatched, fails patched, test-suite still passes patched.
set -u
src="$1"; id="$2"
wt=/tmp/wt/confirm_$id
git -C /repo worktree add -q "$wt" HEAD || exit 3
mkdir -p "$wt/_mut/x"; cp "$src/demo.py" "$wt/_mut/x/demo.py"
cd "$wt"; export PYTHONPATH="$wt"
/venv/bin/python -W ignore _mut/x/demo.py >/dev/null 2>&1; clean=$?
if ! git apply "$src/patch.diff"; then echo "RESULT $id patch-does-not-apply"; cd /; git -C /repo worktree remove --force "$wt"; exit 1; fi
/venv/bin/python -W ignore _mut/x/demo.py >/dev/null 2>&1; mutated=$?
out=$(/venv/bin/python -m pytest -q -p no:cacheprovider --timeout=900 --continue-on-collection-errors -n 8 2>&1 | grep -E "^(FAILED|ERROR)|passed")
bad=$(echo "$out" | grep -E "^(FAILED|ERROR)" | grep -v -E "test_experiments_core|test_registered_class_nostate|test_performance|HttpSource_Tests::test_(bad_status_code|chunk_size_1024|chunk_size_none)")
still=""
for t in $(echo "$bad" | grep -oE "coba/tests/[^ ]+"); do
  /venv/bin/python -m pytest -q -p no:cacheprovider --timeout=900 "$t" >/dev/null 2>&1 || still="$still $t"
done
bad="$still"
summary=$(echo "$out" | grep passed | tail -1 | tr -d "\n")
cd /; git -C /repo worktree remove --force "$wt"
echo; echo "RESULT $id demo_clean=$clean demo_mutated=$mutated unexpected_test_failures=[$(echo $bad | tr '\n' ' ')] suite='$summary'"

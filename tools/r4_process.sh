#!/bin/bash
# usage: tools/r4_process.sh <PROP> <a|b> : confirm a sub-agent's change (demo clean/mutated, test-suite) and try the quick check on it
set -u
prop="$1"; v="$2"; src=/tmp/r4/$prop/_out/$v
dst=/tmp/r4/out_${prop}_$v; rm -rf "$dst"; mkdir -p "$dst"; cp "$src"/patch.diff "$src"/demo.py "$src"/meta.json "$dst"/ 2>/dev/null
/verif/tools/confirm_mut.sh "$dst" "r4${prop}$v" 2>&1 | grep RESULT
HEADN=6 /verif/tools/try_mut_wt.sh "$dst/patch.diff" "$prop" quick

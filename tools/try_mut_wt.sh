#!/bin/bash
# usage: tools/try_mut_wt.sh <patch.diff> <PROP> [tier] [extra args] -- like try_mut.sh but on a scratch worktree of /repo HEAD
# (VERIF_REPO), so /repo itself is never touched and several seeded changes can be tried in parallel.
set -u
patch="$1"; prop="$2"; tier="${3:-quick}"; shift 3 2>/dev/null || shift 2
wt=/tmp/wt/try_$$_$RANDOM
git -C /repo worktree add -q "$wt" HEAD || exit 3
( cd "$wt" && git apply "$patch" ) || { echo "patch does not apply"; git -C /repo worktree remove --force "$wt"; exit 3; }
cd /verif && VERIF_REPO="$wt" ./check "$prop" --tier "$tier" --no-evidence "$@" 2>&1 | grep -E "^(VIOLATION|KNOWN|HARNESS|INCONCLUSIVE|C[0-9]+ tier)|^  C" | cut -c1-300 | sort | uniq -c | sort -rn | head -${HEADN:-8}
rc=${PIPESTATUS[0]}
git -C /repo worktree remove --force "$wt"
echo "exit=$rc"

"""symx - a small proxy-object dynamic symbolic executor on top of z3.

The code under test (coba, imported from /repo) runs natively; only the *values*
handed to it are proxies wrapping z3 terms.  Every time Python needs a concrete
truth value / index / hash of a proxy the explorer asks z3 which outcomes are
feasible under the current path condition and forks (DFS by re-execution).

  Explorer.explore(harness)   run `harness(sym)` over every feasible path
  sym.int/real/fp/bool/...    fresh solver variables with stated bounds
  sym.choice/size             finite structure selectors (enumerated forks)
  sym.check(cond, what)       obligation: path => cond  (model on failure)
  sym.assume(cond)            precondition

Verdict per obligation: holds (every path explored, every check unsat),
counterexample (model, to be replayed without proxies), or inconclusive
(solver unknown / budget exhausted).
"""
import time, math, itertools, fractions, numbers, re
import z3

__all__ = ['Explorer','SymInt','SymReal','SymBool','SymFP','SymFPR','SymBV','Inconclusive','Violation',
           'ConcreteSym','unwrap','is_sym','discover_prefixes','collect','to_smt2','And','Or','Not','Implies','ite']

import os as _os
_REPO = _os.environ.get('VERIF_REPO','/repo').rstrip('/') + '/'

class Inconclusive(Exception):
    pass

class _Abort(BaseException):
    """Ends the current path (infeasible / exhausted / assumption false)."""

class _Discover(BaseException):
    def __init__(self, n): self.n = n

class Violation(Exception):
    def __init__(self, what, model=None, info=None):
        super().__init__(what)
        self.what, self.model, self.info = what, model, info

EX = None   # the active explorer (one per process)

# ----------------------------------------------------------------------------------------
# helpers
# ----------------------------------------------------------------------------------------
def is_sym(x):
    return isinstance(x, _Sym)

def _frac(x):
    if isinstance(x, bool): return fractions.Fraction(int(x))
    if isinstance(x, int): return fractions.Fraction(x)
    if isinstance(x, float): return fractions.Fraction(x)   # exact
    if isinstance(x, fractions.Fraction): return x
    raise TypeError(x)

def _realval(x):
    f = _frac(x)
    return z3.RealVal(f"{f.numerator}/{f.denominator}")

def _mkbool(t):
    if z3.is_true(t): return True
    if z3.is_false(t): return False
    return SymBool(t)

def _mkint(t):
    if z3.is_int_value(t): return t.as_long()
    return SymInt(t)

def _mkreal(t):
    return SymReal(t)

def _bterm(x):
    if isinstance(x, SymBool): return x.t
    if isinstance(x, bool): return z3.BoolVal(x)
    if isinstance(x, _Sym): return x.__bool_term__()
    return z3.BoolVal(bool(x))

def And(*xs): return _mkbool(z3.simplify(z3.And(*[_bterm(x) for x in xs])) if xs else z3.BoolVal(True))
def Or(*xs):  return _mkbool(z3.simplify(z3.Or(*[_bterm(x) for x in xs])) if xs else z3.BoolVal(False))
def Not(x):   return _mkbool(z3.simplify(z3.Not(_bterm(x))))
def Implies(a,b): return _mkbool(z3.simplify(z3.Implies(_bterm(a),_bterm(b))))

def ite(c, a, b):
    """Symbolic if-then-else without forking (ints/reals)."""
    if isinstance(c,bool): return a if c else b
    ta, tb = _num_term(a), _num_term(b)
    if ta.sort() != tb.sort():
        ta, tb = _to_real_term(a), _to_real_term(b)
    t = z3.If(c.t, ta, tb)
    return _mkint(t) if t.sort() == z3.IntSort() else _mkreal(t)

def _num_term(x):
    if isinstance(x, (SymInt,SymReal)): return x.t
    if isinstance(x, bool): return z3.IntVal(int(x))
    if isinstance(x, int): return z3.IntVal(x)
    if isinstance(x, (float,fractions.Fraction)): return _realval(x)
    raise TypeError(type(x))

def _to_real_term(x):
    if isinstance(x, SymReal): return x.t
    if isinstance(x, SymInt): return z3.ToReal(x.t)
    return _realval(x)

def unwrap(x):
    """Concrete python value of x under the current path (forks if not unique)."""
    if isinstance(x, _Sym): return x.concretize()
    return x

class _Sym:
    __slots__ = ('t',)
    __array_priority__ = 1000
    def concretize(self): raise NotImplementedError
    def __hash__(self): return hash(self.concretize())
    def __repr__(self): return f"<{type(self).__name__} {z3.simplify(self.t)}>"
    def __deepcopy__(self, memo): return self
    def __copy__(self): return self
    def __reduce__(self):
        # pickling is a C boundary: the value has to become concrete (forks)
        v = self.concretize()
        return (type(v), (v,))

# ----------------------------------------------------------------------------------------
class SymBool(_Sym):
    __slots__ = ()
    def __init__(self, t): self.t = t
    @property
    def __class__(self): return bool
    def __bool__(self): return EX.branch(self.t)
    def __bool_term__(self): return self.t
    def concretize(self): return bool(self)
    def __and__(self, o):
        if isinstance(o,(bool,SymBool)): return And(self,o)
        return NotImplemented
    __rand__ = __and__
    def __or__(self, o):
        if isinstance(o,(bool,SymBool)): return Or(self,o)
        return NotImplemented
    __ror__ = __or__
    def __invert__(self): return Not(self)
    def __eq__(self, o):
        if isinstance(o,(bool,SymBool)): return _mkbool(z3.simplify(self.t == _bterm(o)))
        if isinstance(o,(int,SymInt)): return self.__int_term__() == o
        return NotImplemented
    def __ne__(self, o):
        r = self.__eq__(o)
        return r if r is NotImplemented else Not(r)
    def __hash__(self): return hash(bool(self))
    def __int_term__(self): return SymInt(z3.If(self.t, z3.IntVal(1), z3.IntVal(0)))
    def __int__(self): return int(bool(self))
    def __index__(self): return int(bool(self))
    def __add__(self, o): return self.__int_term__() + o
    def __radd__(self, o): return o + self.__int_term__()
    def __mul__(self, o): return self.__int_term__() * o
    def __rmul__(self, o): return o * self.__int_term__()

# ----------------------------------------------------------------------------------------
def _cmp(op):
    def f(self, o):
        if isinstance(o, float) and o in (math.inf, -math.inf):
            # every finite value compares with +-inf like 0.0 does
            return bool(op(z3.RealVal(0), z3.RealVal(1 if o > 0 else -1)) is not None and z3.is_true(z3.simplify(op(z3.RealVal(0), z3.RealVal(1 if o > 0 else -1)))))
        a, b = self._coerce(o)
        if a is None: return NotImplemented
        return _mkbool(z3.simplify(op(a, b)))
    return f

def _rcmp_ne(self, o):
    if isinstance(o, float) and o in (math.inf, -math.inf): return True
    a, b = self._coerce(o)
    if a is None: return NotImplemented
    return _mkbool(z3.simplify(a != b))

class SymInt(_Sym):
    """Mathematical integer (Python int semantics: floor division, unbounded)."""
    __slots__ = ()
    def __init__(self, t): self.t = t
    @property
    def __class__(self): return int
    def _coerce(self, o):
        if isinstance(o, SymInt): return self.t, o.t
        if isinstance(o, SymBool): return self.t, o.__int_term__().t
        if isinstance(o, bool): return self.t, z3.IntVal(int(o))
        if isinstance(o, int): return self.t, z3.IntVal(o)
        if isinstance(o, SymReal): return z3.ToReal(self.t), o.t
        if isinstance(o, (float,fractions.Fraction)):
            if isinstance(o,float) and (o != o or o in (math.inf,-math.inf)): return None, None
            return z3.ToReal(self.t), _realval(o)
        return None, None
    def _res(self, t):
        t = z3.simplify(t)
        return _mkint(t) if t.sort() == z3.IntSort() else _mkreal(t)
    def __bool_term__(self): return self.t != 0
    def __bool__(self): return EX.branch(self.t != 0)
    def concretize(self): return EX.concretize(self.t)
    def __index__(self): return self.concretize()
    def __int__(self): return self.concretize()
    def __float__(self): return float(self.concretize())
    def __trunc__(self): return self
    def __floor__(self): return self
    def __ceil__(self): return self
    def __round__(self, n=None): return self
    def is_integer(self): return True
    def __pos__(self): return self
    def __neg__(self): return self._res(-self.t)
    def __abs__(self): return self._res(z3.If(self.t >= 0, self.t, -self.t))
    def __add__(self, o):
        a,b = self._coerce(o)
        return NotImplemented if a is None else self._res(a+b)
    __radd__ = __add__
    def __sub__(self, o):
        a,b = self._coerce(o)
        return NotImplemented if a is None else self._res(a-b)
    def __rsub__(self, o):
        a,b = self._coerce(o)
        return NotImplemented if a is None else self._res(b-a)
    def __mul__(self, o):
        if isinstance(o, SymFP): return NotImplemented
        a,b = self._coerce(o)
        return NotImplemented if a is None else self._res(a*b)
    __rmul__ = __mul__
    def __truediv__(self, o):
        a,b = self._coerce(o)
        if a is None: return NotImplemented
        if not isinstance(o,_Sym) and o == 0: raise ZeroDivisionError("division by zero")
        if isinstance(o,_Sym) and EX.branch(b == 0): raise ZeroDivisionError("division by zero")
        ar = a if a.sort()==z3.RealSort() else z3.ToReal(a)
        br = b if b.sort()==z3.RealSort() else z3.ToReal(b)
        return _mkreal(z3.simplify(ar/br))
    def __rtruediv__(self, o):
        a,b = self._coerce(o)
        if a is None: return NotImplemented
        if EX.branch(a == 0): raise ZeroDivisionError("division by zero")
        ar = a if a.sort()==z3.RealSort() else z3.ToReal(a)
        br = b if b.sort()==z3.RealSort() else z3.ToReal(b)
        return _mkreal(z3.simplify(br/ar))
    def _intdiv(self, a, b, bsym):
        # python floor division / modulo for ints; z3 div/mod are euclidean
        if bsym:
            if EX.branch(b == 0): raise ZeroDivisionError("integer division or modulo by zero")
            pos = EX.branch(b > 0)
        else:
            bv = b.as_long()
            if bv == 0: raise ZeroDivisionError("integer division or modulo by zero")
            pos = bv > 0
        if pos: return a / b, a % b
        # b<0: floor(a/b) = floor((-a)/(-b))
        return (-a) / (-b), -((-a) % (-b))
    def __floordiv__(self, o):
        if isinstance(o,(SymReal,float)): return (self.__truediv__(o)).__floor__()
        a,b = self._coerce(o)
        if a is None: return NotImplemented
        return self._res(self._intdiv(a,b,isinstance(o,_Sym))[0])
    def __rfloordiv__(self, o):
        a,b = self._coerce(o)
        if a is None: return NotImplemented
        return self._res(self._intdiv(b,a,True)[0])
    def __mod__(self, o):
        a,b = self._coerce(o)
        if a is None or a.sort()!=z3.IntSort(): return NotImplemented
        return self._res(self._intdiv(a,b,isinstance(o,_Sym))[1])
    def __rmod__(self, o):
        a,b = self._coerce(o)
        if a is None or a.sort()!=z3.IntSort(): return NotImplemented
        return self._res(self._intdiv(b,a,True)[1])
    def __divmod__(self, o): return (self//o, self%o)
    def __pow__(self, o, m=None):
        if isinstance(o,int) and not isinstance(o,bool) and o >= 0 and m is None:
            r = 1
            for _ in range(o): r = r*self
            return r
        return NotImplemented
    def __and__(self, o):
        # only masks of the form 2^k-1 on non-negative values (LCG modulus)
        if isinstance(o,int) and o >= 0 and (o & (o+1)) == 0:
            EX.side(self.t >= 0, "SymInt & mask requires non-negative value")
            return self._res(self.t % (o+1))
        return NotImplemented
    __rand__ = __and__
    __eq__ = _cmp(lambda a,b: a==b)
    __ne__ = _rcmp_ne
    __lt__ = _cmp(lambda a,b: a<b)
    __le__ = _cmp(lambda a,b: a<=b)
    __gt__ = _cmp(lambda a,b: a>b)
    __ge__ = _cmp(lambda a,b: a>=b)
    __hash__ = _Sym.__hash__

class SymReal(_Sym):
    """Exact real (used where the property says 'exact arithmetic'); Python float role."""
    __slots__ = ()
    def __init__(self, t): self.t = t
    @property
    def __class__(self): return float
    def _coerce(self, o):
        if isinstance(o, SymReal): return self.t, o.t
        if isinstance(o, SymInt): return self.t, z3.ToReal(o.t)
        if isinstance(o, SymBool): return self.t, z3.ToReal(o.__int_term__().t)
        if isinstance(o, (bool,int,float,fractions.Fraction)):
            if isinstance(o,float) and (o != o or o in (math.inf,-math.inf)): return None, None
            return self.t, _realval(o)
        return None, None
    def _res(self, t): return SymReal(z3.simplify(t))
    def __bool_term__(self): return self.t != 0
    def __bool__(self): return EX.branch(self.t != 0)
    def concretize(self):
        v = EX.concretize(self.t)
        return float(v) if not isinstance(v,int) else float(v)
    def __float__(self): return self.concretize()
    def __int__(self): return int(self.__trunc__())
    def __trunc__(self):
        fl = z3.ToInt(self.t)
        return _mkint(z3.simplify(z3.If(self.t >= 0, fl, -z3.ToInt(-self.t))))
    def __floor__(self): return _mkint(z3.simplify(z3.ToInt(self.t)))
    def __ceil__(self): return _mkint(z3.simplify(-z3.ToInt(-self.t)))
    def is_integer(self): return _mkbool(z3.simplify(z3.IsInt(self.t)))
    def __pos__(self): return self
    def __neg__(self): return self._res(-self.t)
    def __abs__(self): return self._res(z3.If(self.t >= 0, self.t, -self.t))
    def __add__(self, o):
        a,b = self._coerce(o)
        return NotImplemented if a is None else self._res(a+b)
    __radd__ = __add__
    def __sub__(self, o):
        a,b = self._coerce(o)
        return NotImplemented if a is None else self._res(a-b)
    def __rsub__(self, o):
        a,b = self._coerce(o)
        return NotImplemented if a is None else self._res(b-a)
    def __mul__(self, o):
        a,b = self._coerce(o)
        return NotImplemented if a is None else self._res(a*b)
    __rmul__ = __mul__
    def __truediv__(self, o):
        a,b = self._coerce(o)
        if a is None: return NotImplemented
        if isinstance(o,_Sym):
            if EX.branch(b == 0): raise ZeroDivisionError("float division by zero")
        elif o == 0: raise ZeroDivisionError("float division by zero")
        return self._res(a/b)
    def __rtruediv__(self, o):
        a,b = self._coerce(o)
        if a is None: return NotImplemented
        if EX.branch(a == 0): raise ZeroDivisionError("float division by zero")
        return self._res(b/a)
    def __floordiv__(self, o): return (self/o).__floor__()
    def __pow__(self, o, m=None):
        if isinstance(o,int) and not isinstance(o,bool) and o >= 0 and m is None:
            r = 1
            for _ in range(o): r = r*self
            return r
        return NotImplemented
    __eq__ = _cmp(lambda a,b: a==b)
    __ne__ = _rcmp_ne
    __lt__ = _cmp(lambda a,b: a<b)
    __le__ = _cmp(lambda a,b: a<=b)
    __gt__ = _cmp(lambda a,b: a>b)
    __ge__ = _cmp(lambda a,b: a>=b)
    __hash__ = _Sym.__hash__

# ----------------------------------------------------------------------------------------
F64 = z3.Float64()
RNE = z3.RNE()

def _fpval(x):
    if isinstance(x, SymFP): return x.t
    if isinstance(x, bool): x = int(x)
    if isinstance(x, int):
        if abs(x) >= 2**53: raise TypeError("int too large for exact FP")
        return z3.FPVal(float(x), F64)
    if isinstance(x, float): return z3.FPVal(x, F64)
    return None

class SymFP(_Sym):
    """IEEE-754 binary64, round-nearest-even, bit-exact (z3 FP theory)."""
    __slots__ = ()
    def __init__(self, t): self.t = t
    @property
    def __class__(self): return float
    def _coerce(self, o):
        if isinstance(o, SymInt):
            # exact while |o| < 2^53 (side condition recorded)
            EX.side(z3.And(o.t > -2**53, o.t < 2**53), "int->float conversion exact (<2^53)")
            return self.t, z3.fpToFP(RNE, z3.ToReal(o.t), F64)
        b = _fpval(o)
        return (None,None) if b is None else (self.t, b)
    def _res(self, t): return SymFP(t)
    def __bool__(self): return EX.branch(z3.Not(z3.fpIsZero(self.t)))
    def concretize(self): return EX.concretize(self.t)
    def __float__(self): return self.concretize()
    def __neg__(self): return SymFP(z3.fpNeg(self.t))
    def __pos__(self): return self
    def __abs__(self): return SymFP(z3.fpAbs(self.t))
    def __add__(self,o):
        a,b = self._coerce(o); return NotImplemented if a is None else SymFP(z3.fpAdd(RNE,a,b))
    __radd__ = __add__
    def __sub__(self,o):
        a,b = self._coerce(o); return NotImplemented if a is None else SymFP(z3.fpSub(RNE,a,b))
    def __rsub__(self,o):
        a,b = self._coerce(o); return NotImplemented if a is None else SymFP(z3.fpSub(RNE,b,a))
    def __mul__(self,o):
        a,b = self._coerce(o); return NotImplemented if a is None else SymFP(z3.fpMul(RNE,a,b))
    __rmul__ = __mul__
    def __truediv__(self,o):
        a,b = self._coerce(o)
        if a is None: return NotImplemented
        if EX.branch(z3.fpIsZero(b)): raise ZeroDivisionError("float division by zero")
        return SymFP(z3.fpDiv(RNE,a,b))
    def __rtruediv__(self,o):
        a,b = self._coerce(o)
        if a is None: return NotImplemented
        if EX.branch(z3.fpIsZero(a)): raise ZeroDivisionError("float division by zero")
        return SymFP(z3.fpDiv(RNE,b,a))
    def __floor__(self):
        # python: floor(float)->int ; exact integer value of RTN rounding
        r = z3.fpRoundToIntegral(z3.RTN(), self.t)
        return _mkint(z3.ToInt(z3.fpToReal(r)))
    def _c(op):
        def f(self,o):
            a,b = self._coerce(o)
            if a is None: return NotImplemented
            return _mkbool(op(a,b))
        return f
    __eq__ = _c(z3.fpEQ)
    __ne__ = _c(lambda a,b: z3.Not(z3.fpEQ(a,b)))
    __lt__ = _c(z3.fpLT)
    __le__ = _c(z3.fpLEQ)
    __gt__ = _c(z3.fpGT)
    __ge__ = _c(z3.fpGEQ)
    __hash__ = _Sym.__hash__

class SymFPR(_Sym):
    """Standard model of binary64 arithmetic over the reals: every operation returns exact*(1+e)+n with fresh |e|<=2^-53, |n|<=2^-1075
    (sound over-approximation of IEEE round-to-nearest while no overflow occurs). Used where bit-blasting does not finish."""
    __slots__ = ()
    _k = [0]
    U = fractions.Fraction(1, 2**53); N = fractions.Fraction(1, 2**1075)
    def __init__(self, t): self.t = t
    @property
    def __class__(self): return float
    @classmethod
    def _rnd(cls, exact):
        cls._k[0] += 1
        e = z3.Real(f'__e{cls._k[0]}'); n = z3.Real(f'__n{cls._k[0]}')
        EX.vars[f'__e{cls._k[0]}'] = e; EX.vars[f'__n{cls._k[0]}'] = n
        EX._add(z3.And(e >= -_realval(cls.U), e <= _realval(cls.U), n >= -_realval(cls.N), n <= _realval(cls.N)))
        return SymFPR(exact*(1+e)+n)
    def _c(self, o):
        if isinstance(o, SymFPR): return o.t
        if isinstance(o, (int,float)) and not isinstance(o,bool): return _realval(o)
        if isinstance(o, SymInt): return z3.ToReal(o.t)
        return None
    def __mul__(self,o):
        b=self._c(o); return NotImplemented if b is None else SymFPR._rnd(self.t*b)
    __rmul__=__mul__
    def __add__(self,o):
        b=self._c(o); return NotImplemented if b is None else SymFPR._rnd(self.t+b)
    __radd__=__add__
    def __sub__(self,o):
        b=self._c(o); return NotImplemented if b is None else SymFPR._rnd(self.t-b)
    def __rsub__(self,o):
        b=self._c(o); return NotImplemented if b is None else SymFPR._rnd(b-self.t)
    def __truediv__(self,o):
        b=self._c(o); return NotImplemented if b is None else SymFPR._rnd(self.t/b)
    def __neg__(self): return SymFPR(-self.t)
    def __round__(self, n=None):
        SymFPR._k[0] += 1
        r = z3.Int(f'__r{SymFPR._k[0]}'); EX.vars[f'__r{SymFPR._k[0]}'] = r
        EX._add(z3.And(z3.ToReal(r)-self.t <= _realval(fractions.Fraction(1,2)), self.t-z3.ToReal(r) <= _realval(fractions.Fraction(1,2))))
        return SymFPR(z3.ToReal(r))          # integral, exactly representable below 2^53
    def is_integer(self): return _mkbool(z3.simplify(z3.IsInt(self.t)))
    def _cmpop(op):
        def f(self,o):
            b=self._c(o)
            return NotImplemented if b is None else _mkbool(z3.simplify(op(self.t,b)))
        return f
    __eq__=_cmpop(lambda a,b:a==b); __ne__=_cmpop(lambda a,b:a!=b); __lt__=_cmpop(lambda a,b:a<b)
    __le__=_cmpop(lambda a,b:a<=b); __gt__=_cmpop(lambda a,b:a>b); __ge__=_cmpop(lambda a,b:a>=b)
    __hash__ = _Sym.__hash__
    def concretize(self): return float(EX.concretize(self.t))

class SymBV(_Sym):
    """Fixed-width unsigned bit-vector standing in for a bounded Python int."""
    __slots__ = ('w',)
    def __init__(self, t): self.t = t; self.w = t.size()
    @property
    def __class__(self): return int
    def _c(self,o):
        if isinstance(o,SymBV): return o.t
        if isinstance(o,int): return z3.BitVecVal(o,self.w)
        return None
    def __add__(self,o):
        b=self._c(o); return NotImplemented if b is None else SymBV(self.t+b)
    __radd__=__add__
    def __mul__(self,o):
        b=self._c(o); return NotImplemented if b is None else SymBV(self.t*b)
    __rmul__=__mul__
    def __sub__(self,o):
        b=self._c(o); return NotImplemented if b is None else SymBV(self.t-b)
    def __and__(self,o):
        b=self._c(o); return NotImplemented if b is None else SymBV(self.t&b)
    __rand__=__and__
    def __mod__(self,o):
        b=self._c(o); return NotImplemented if b is None else SymBV(z3.URem(self.t,b))
    def __truediv__(self,o):
        # s/m with m a power of two: exact dyadic -> FP
        if isinstance(o,int) and o>0 and (o&(o-1))==0:
            f = z3.fpToFPUnsigned(RNE, self.t, F64)
            return SymFP(z3.fpDiv(RNE, f, z3.FPVal(float(o),F64)))
        return NotImplemented
    def __eq__(self,o):
        b=self._c(o); return NotImplemented if b is None else _mkbool(z3.simplify(self.t==b))
    def __ne__(self,o):
        b=self._c(o); return NotImplemented if b is None else _mkbool(z3.simplify(self.t!=b))
    def __lt__(self,o):
        b=self._c(o); return NotImplemented if b is None else _mkbool(z3.ULT(self.t,b))
    def __le__(self,o):
        b=self._c(o); return NotImplemented if b is None else _mkbool(z3.ULE(self.t,b))
    def concretize(self): return EX.concretize(self.t)
    def __index__(self): return self.concretize()
    def __int__(self): return self.concretize()
    __hash__ = _Sym.__hash__

# ----------------------------------------------------------------------------------------
def _pyval(v):
    """z3 model value -> python value."""
    if z3.is_int_value(v): return v.as_long()
    if z3.is_rational_value(v):
        f = fractions.Fraction(v.numerator_as_long(), v.denominator_as_long())
        return int(f) if f.denominator == 1 and False else f
    if z3.is_true(v): return True
    if z3.is_false(v): return False
    if z3.is_bv_value(v): return v.as_long()
    if z3.is_fp(v):
        if z3.is_fprm_value(v): return str(v)
        if v.isNaN(): return math.nan
        if v.isInf(): return -math.inf if v.isNegative() else math.inf
        s = v.sign(); e = v.exponent_as_long(biased=True); m = v.significand_as_long()
        import struct
        bits = (int(bool(s))<<63) | (e<<52) | m
        return struct.unpack('>d', struct.pack('>Q', bits))[0]
    if z3.is_algebraic_value(v):
        return fractions.Fraction(v.approx(20).as_fraction())
    raise Inconclusive(f"cannot convert model value {v}")

_INT_CACHE = {}

class Explorer:
    """DFS over feasible paths of `harness(sym)` by re-execution."""
    def __init__(self, max_paths=200000, solver_timeout_ms=20000, deadline=None, tactic=None):
        self.s = z3.Solver() if tactic is None else z3.Tactic(tactic).solver()
        self.s.set('timeout', solver_timeout_ms)
        self.max_paths = max_paths
        self.deadline = deadline
        self.stats = dict(paths=0, reached=0, branches=0, queries=0, solver_s=0.0, aborted=0,
                          checks=0, side=0)
        self.violations = []      # list of dict(what, model, choices, info)
        self.samples = []
        self.inconclusive = []
        self.vars = {}            # name -> z3 const (ordered)
        self.choices = {}         # name -> chosen python value (current path)
        self.on_violation = None
        self.forced = []; self.fpos = 0; self.discover = False; self.collecting = False
        self.model = None

    # -- solver plumbing ---------------------------------------------------------------
    def _check(self, *assumptions):
        if self.collecting:
            raise Inconclusive("data-dependent branch while collecting a straight-line lemma")
        t0 = time.perf_counter()
        r = self.s.check(*assumptions)
        self.stats['solver_s'] += time.perf_counter()-t0
        self.stats['queries'] += 1
        if r == z3.unknown:
            raise Inconclusive(f"solver unknown: {self.s.reason_unknown()}")
        return r == z3.sat

    def _model(self):
        m = self.s.model()
        out = {}
        for name, v in self.vars.items():
            out[name] = _pyval(m.eval(v, model_completion=True))
        return out

    # -- decisions -------------------------------------------------------------------
    def branch(self, cond):
        """Truth value of z3 Bool `cond` on this path; forks when both are feasible."""
        cond = z3.simplify(cond)
        if z3.is_true(cond): return True
        if z3.is_false(cond): return False
        if self.discover: raise _Discover(None)
        i = self.pos; self.pos += 1
        if i < len(self.trace):
            e = self.trace[i]
            val = e['v']
            if self.model is not None and not self._holds_in_model(cond if val else z3.Not(cond)):
                self.model = None
        else:
            # a cached model of the path decides one side for free
            guess = None
            if self.model is not None:
                guess = self._holds_in_model(cond)
            if guess is None:
                t = self._check(cond)
                if t: self.model = self.s.model()
                guess = t
                if not t:
                    val, other = False, False      # path is feasible, so the other side is
                else:
                    m = self.model
                    f = self._check(z3.Not(cond))
                    self.model = m
                    val, other = True, f
            elif guess:
                m = self.model
                f = self._check(z3.Not(cond))
                self.model = m
                val, other = True, f
            else:
                m = self.model
                t = self._check(cond)
                if t:
                    val, other = True, True
                    self.model = self.s.model()
                else:
                    val, other = False, False
                    self.model = m
            e = dict(k='br', v=val, other=other)
            self.trace.append(e)
            if other: self.stats['branches'] += 1
        self.s.add(cond if val else z3.Not(cond))   # model (if any) satisfies this side
        return val

    def _add(self, c):
        self.s.add(c)
        if self.model is not None and self._holds_in_model(c) is not True:
            self.model = None

    def _holds_in_model(self, cond):
        v = self.model.eval(cond, model_completion=True)
        if z3.is_true(v): return True
        if z3.is_false(v): return False
        return None

    def enum(self, name, n):
        """Pure enumeration fork over range(n) (no solver involved)."""
        if n <= 0: raise _Abort()
        if self.pos == 0 and self.fpos < len(self.forced):
            # forced prefix (task splitting): fixed, never backtracked
            v = self.forced[self.fpos]; self.fpos += 1
            return v
        if self.discover: raise _Discover(n)
        i = self.pos; self.pos += 1
        if i < len(self.trace):
            e = self.trace[i]
        else:
            e = dict(k='en', v=0, n=n)
            self.trace.append(e)
            if n > 1: self.stats['branches'] += 1
        return e['v']

    def concretize(self, term):
        """Concrete value of `term`; forks over every feasible value (must be finite)."""
        term = z3.simplify(term)
        if z3.is_int_value(term) or z3.is_rational_value(term) or z3.is_bv_value(term) or \
           (z3.is_fp(term) and z3.is_fp_value(term)) or z3.is_true(term) or z3.is_false(term):
            return _pyval(term)
        if self.discover: raise _Discover(None)
        i = self.pos; self.pos += 1
        if i < len(self.trace):
            e = self.trace[i]
            if e.get('retry'):
                e['retry'] = False
                for x in e['ex']: self._add(term != x)
                if not self._check():
                    e['dead'] = True
                    raise _Abort()
                e['v'] = self.s.model().eval(term, model_completion=True)
                # is it the last one?
        else:
            if not self._check(): raise _Abort()
            v = self.s.model().eval(term, model_completion=True)
            e = dict(k='co', v=v, ex=[])
            self.trace.append(e)
            self.stats['branches'] += 1
        self._add(term == e['v'])
        return _pyval(e['v'])

    def side(self, cond, what):
        """Side condition of an encoding step (e.g. exactness); must be valid on the path."""
        cond = z3.simplify(cond)
        if z3.is_true(cond): return
        self.stats['side'] += 1
        if self._check(z3.Not(cond)):
            raise Inconclusive(f"encoding side-condition fails: {what}")

    # -- harness API --------------------------------------------------------------------
    def _declare(self, name, const):
        self.vars[name] = const
        return const

    def int(self, name, lo=None, hi=None):
        key = (name, lo, hi)
        c = _INT_CACHE.get(key)
        if c is None:
            v = z3.Int(name)
            b = [x for x in ((v >= lo) if lo is not None else None, (v <= hi) if hi is not None else None) if x is not None]
            c = _INT_CACHE[key] = (v, z3.And(*b) if len(b) == 2 else (b[0] if b else None))
        v, b = c
        self.vars[name] = v
        if b is not None: self._add(b)
        return SymInt(v)

    def real(self, name, lo=None, hi=None, denom=None):
        """Exact real; with `denom` the value is k/denom for an integer k (float-exact
        for power-of-two denominators, so models replay bit-exactly)."""
        if denom:
            k = self._declare(name, z3.Int(name))
            t = z3.ToReal(k)/denom
            if lo is not None: self._add(k >= math.ceil(_frac(lo)*denom))
            if hi is not None: self._add(k <= math.floor(_frac(hi)*denom))
            return SymReal(t)
        v = self._declare(name, z3.Real(name))
        if lo is not None: self._add(v >= _realval(lo))
        if hi is not None: self._add(v <= _realval(hi))
        return SymReal(v)

    def bool(self, name):
        return SymBool(self._declare(name, z3.Bool(name)))

    def fp(self, name):
        return SymFP(self._declare(name, z3.FP(name, F64)))

    def fpr(self, name):
        return SymFPR(self._declare(name, z3.Real(name)))

    def bv(self, name, width, lo=None, hi=None):
        v = self._declare(name, z3.BitVec(name, width))
        if lo is not None: self._add(z3.UGE(v, lo))
        if hi is not None: self._add(z3.ULE(v, hi))
        return SymBV(v)

    def choice(self, name, options):
        options = list(options)
        i = self.enum(name, len(options))
        self.choices[name] = i
        return options[i]

    def size(self, name, lo, hi):
        return self.choice(name, range(lo, hi+1))

    def flag(self, name):
        return self.choice(name, [False, True])

    def assume(self, cond):
        if self.collecting:
            if isinstance(cond, _Sym): self.s.add(_bterm(cond))
            elif not cond: raise _Abort()
            return
        if isinstance(cond, _Sym):
            self._add(_bterm(cond))
            if not self._check(): raise _Abort()
        elif not cond:
            raise _Abort()

    def note(self, **kw):
        self.info.update(kw)

    def check(self, cond, what="assertion", model=None):
        """Obligation: under the current path condition `cond` must hold.
        `model`: explicit witness values (used when the harness itself knows a distinguishing input)."""
        self.stats['checks'] += 1
        self.reached_flag = True
        if self.collecting:
            self.goals.append((what, _bterm(cond) if isinstance(cond,_Sym) else z3.BoolVal(bool(cond)))); return
        if isinstance(cond, _Sym):
            t = z3.simplify(_bterm(cond))
            if z3.is_true(t): return
            m = self.model
            if self._check(z3.Not(t)):
                self._violation(what, model)
                self._add(t)
                if not self._check(): raise _Abort()   # violated on the whole path
            else:
                self.model = m
                self._add(t)
        elif not cond:
            if not self._check(): raise _Abort()
            self._violation(what, model)
            raise _Abort()

    def fail(self, what, model=None):
        self.check(False, what, model=model)

    def valid(self, cond):
        """True iff `cond` holds for every assignment satisfying the path condition (no fork)."""
        if isinstance(cond, _Sym):
            t = z3.simplify(_bterm(cond))
            if z3.is_true(t): return True
            if z3.is_false(t): return False
            m = self.model
            r = not self._check(z3.Not(t))
            self.model = m
            return r
        return bool(cond)

    def _violation(self, what, model=None):
        path_model = None
        if model is None: model = self._model()
        else:
            # the harness supplied witness values of its own (e.g. distinct primes for a polynomial identity); the values the
            # solver found for this path are kept too: a violation that hangs on a value-dependent branch only replays with them
            try: path_model = self._model()
            except Exception: path_model = None
        v = dict(what=what, model=model, choices=dict(self.choices), info=dict(self.info))
        if path_model is not None: v['path_model'] = path_model
        self.violations.append(v)

    # -- driver -------------------------------------------------------------------------
    def explore(self, harness, stop_on_first=False):
        global EX
        prev = EX
        EX = self
        self.trace = []
        try:
            while True:
                if self.stats['paths'] >= self.max_paths:
                    raise Inconclusive(f"path budget {self.max_paths} exhausted")
                if self.deadline and time.time() > self.deadline:
                    raise Inconclusive("time budget exhausted")
                self.pos = 0; self.choices = {}; self.info = {}; self.vars = {}; self.model = None; self.fpos = 0
                self.reached_flag = False
                self.s.push()
                try:
                    harness(self)
                    self.stats['paths'] += 1
                    if self.reached_flag: self.stats['reached'] += 1
                    if len(self.samples) < 3 or (self.stats['paths'] % 997 == 0 and len(self.samples) < 8):
                        try:
                            if self._check(): self.samples.append(dict(choices=dict(self.choices), model=_jsonable(self._model())))
                        except Inconclusive: pass
                except _Abort:
                    self.stats['aborted'] += 1
                    if self.reached_flag:
                        self.stats['paths'] += 1; self.stats['reached'] += 1
                except Inconclusive:
                    raise
                except Violation as v:
                    self.stats['paths'] += 1; self.stats['reached'] += 1
                    self.violations.append(dict(what=v.what, model=v.model or self._model(),
                                                choices=dict(self.choices), info=dict(self.info)))
                except Exception as e:
                    # uncaught exception from the code under test on a feasible path
                    self.stats['paths'] += 1; self.stats['reached'] += 1
                    import traceback
                    tb = traceback.extract_tb(e.__traceback__)
                    where = next((f"{f.filename}:{f.lineno}" for f in reversed(tb) if _REPO in f.filename), '')
                    try:
                        ok = self._check()
                    except Inconclusive:
                        ok = False
                    if ok:
                        self.violations.append(dict(what=f"uncaught {type(e).__name__}: {e} @{where}",
                                                    model=self._model(), choices=dict(self.choices),
                                                    info=dict(self.info), exc=type(e).__name__))
                finally:
                    self.s.pop()
                if stop_on_first and self.violations: break
                # backtrack
                while self.trace:
                    e = self.trace[-1]
                    if e.get('dead'):
                        self.trace.pop(); continue
                    if e['k'] == 'br':
                        if e['other']:
                            e['v'] = not e['v']; e['other'] = False; break
                    elif e['k'] == 'en':
                        if e['v']+1 < e['n']:
                            e['v'] += 1; break
                    elif e['k'] == 'co':
                        e['ex'].append(e['v']); e['retry'] = True; break
                    self.trace.pop()
                if not self.trace: break
        finally:
            EX = prev
        return self

def collect(harness):
    """Lemma mode: run straight-line `harness(sym)` once on proxies WITHOUT solving; returns
    (assumptions, goals[(what, z3 bool)], vars). Any data-dependent branch aborts (Inconclusive)."""
    global EX
    ex = Explorer()
    ex.collecting = True; ex.goals = []
    ex.trace = []; ex.pos = 0; ex.choices = {}; ex.info = {}; ex.vars = {}; ex.reached_flag = False; ex.fpos = 0
    prev, EX = EX, ex
    try:
        harness(ex)
    finally:
        EX = prev
    return list(ex.s.assertions()), ex.goals, dict(ex.vars)

def to_smt2(assertions, negated_goal, logic='QF_FP'):
    s = z3.Solver()
    for a in assertions: s.add(a)
    s.add(z3.Not(negated_goal))
    txt = s.to_smt2()
    txt = re.sub(r'\(set-info[^\n]*\n', '', txt)
    txt = txt.replace('(check-sat)', '')
    return f"(set-logic {logic})\n" + txt

def discover_prefixes(harness, target=16, max_depth=12):
    """Split the exploration of `harness` into independent sub-trees: returns a list of forced
    prefixes of enumeration choices (each prefix = one pool task). Only leading sym.choice/size/
    flag decisions are split; the first solver-decided branch ends a prefix."""
    global EX
    leaves, frontier = [], [[]]
    while frontier and len(leaves)+len(frontier) < target:
        pre = frontier.pop(0)
        if len(pre) >= max_depth:
            leaves.append(pre); continue
        ex = Explorer()
        ex.forced = pre; ex.discover = True
        ex.trace = []; ex.pos = 0; ex.choices = {}; ex.info = {}; ex.vars = {}; ex.reached_flag = False
        prev, EX = EX, ex
        n = None
        try:
            ex.s.push()
            harness(ex)
        except _Discover as d:
            n = d.n
        except BaseException:
            n = None
        finally:
            EX = prev
        if n is None: leaves.append(pre)
        else: frontier.extend(pre+[i] for i in range(n))
    return leaves + frontier

def _jsonable(x):
    if isinstance(x, dict): return {str(k): _jsonable(v) for k,v in x.items()}
    if isinstance(x, (list,tuple)): return [_jsonable(v) for v in x]
    if isinstance(x, fractions.Fraction):
        return x.numerator if x.denominator == 1 else f"{x.numerator}/{x.denominator}"
    if isinstance(x, float):
        if x != x: return "nan"
        if x in (math.inf,-math.inf): return "inf" if x>0 else "-inf"
        return x
    if isinstance(x,(int,str,bool)) or x is None: return x
    return repr(x)

# ----------------------------------------------------------------------------------------
class ConcreteSym:
    """Replays a model: hands out plain python values, no solver, no proxies."""
    def __init__(self, model, choices):
        self.model, self.choices_in = model, choices
        self.failed = []
        self.info = {}
        self.choices = {}
    def _get(self, name, default=0):
        v = self.model.get(name, default)
        if isinstance(v, str) and '/' in v:
            a,b = v.split('/'); v = fractions.Fraction(int(a),int(b))
        if v == "nan": v = math.nan
        if v == "inf": v = math.inf
        if v == "-inf": v = -math.inf
        return v
    def int(self, name, lo=None, hi=None):
        # a variable the model leaves open: any in-range value will do; prefer 0 (the neutral value of counters and offsets) to the lower bound
        return int(self._get(name, 0 if (lo is None or (lo <= 0 and (hi is None or hi >= 0))) else lo))
    def real(self, name, lo=None, hi=None, denom=None):
        v = self._get(name, lo if lo is not None else 0)
        if denom: return float(fractions.Fraction(v)/denom) if not isinstance(v,float) else v/denom
        return float(v)
    def bool(self, name): return bool(self._get(name, False))
    def fp(self, name): return float(self._get(name, 0.0))
    def fpr(self, name): return float(self._get(name, 0.0))
    def bv(self, name, width, lo=None, hi=None): return int(self._get(name, lo or 0))
    def choice(self, name, options):
        options = list(options)
        i = self.choices_in.get(name, 0)
        self.choices[name] = i
        return options[i]
    def size(self, name, lo, hi): return self.choice(name, range(lo,hi+1))
    def flag(self, name): return self.choice(name, [False,True])
    def assume(self, cond):
        if not cond: raise _Abort()
    def note(self, **kw): self.info.update(kw)
    def check(self, cond, what="assertion", model=None):
        if not cond:
            self.failed.append(what)
            raise Violation(what)
    def fail(self, what, model=None): self.check(False, what)
    def valid(self, cond): return bool(cond)

def replay(harness, model, choices):
    """Re-run `harness` on plain values. Returns (reproduced: bool, description)."""
    cs = ConcreteSym(model, choices)
    try:
        harness(cs)
    except Violation as v:
        return True, v.what
    except _Abort:
        return False, "assumption not met on replay"
    except Exception as e:
        import traceback
        tb = traceback.extract_tb(e.__traceback__)
        where = next((f"{f.filename}:{f.lineno}" for f in reversed(tb) if _REPO in f.filename), '')
        return True, f"uncaught {type(e).__name__}: {e} @{where}"
    return False, "no violation on replay"

"""Two-solver portfolio (z3 || cvc5) for floating-point lemmas exported from symx terms as SMT-LIB2 text."""
import multiprocessing as mp, time, re, struct, math

def _fp_lit_to_float(txt):
    m = re.match(r'\(fp #b([01]) #b([01]+) #b([01]+)\)', txt.strip())
    if m:
        bits = int(m.group(1)+m.group(2)+m.group(3), 2)
        return struct.unpack('>d', struct.pack('>Q', bits))[0]
    m = re.match(r'\(fp #b([01]) #x([0-9a-f]+) #x([0-9a-f]+)\)', txt.strip())
    if m:
        bits = (int(m.group(1))<<63) | (int(m.group(2),16)<<52) | int(m.group(3),16)
        return struct.unpack('>d', struct.pack('>Q', bits))[0]
    t = txt.strip()
    if 'NaN' in t: return math.nan
    if '+oo' in t: return math.inf
    if '-oo' in t: return -math.inf
    if '+zero' in t: return 0.0
    if '-zero' in t: return -0.0
    raise ValueError(txt)

def _run_z3(smt, names, q, timeout_s, tactic):
    try:
        import z3
        s = z3.Solver() if not tactic else z3.Tactic(tactic).solver()
        s.set('timeout', int(timeout_s*1000))
        s.from_string(smt)
        t0 = time.time(); r = s.check(); dt = time.time()-t0
        if r == z3.sat:
            from symx import _pyval
            m = s.model()
            vals = {}
            for d in m.decls():
                if d.name() in names: vals[d.name()] = _pyval(m[d])
            q.put(('z3', 'sat', vals, dt))
        elif r == z3.unsat: q.put(('z3','unsat',None,dt))
        else: q.put(('z3','unknown',s.reason_unknown(),dt))
    except Exception as e:
        q.put(('z3','error',repr(e),0.0))

def _run_cvc5(smt, names, q, timeout_s):
    try:
        import cvc5
        tm = cvc5.TermManager() if hasattr(cvc5,'TermManager') else None
        slv = cvc5.Solver(tm) if tm else cvc5.Solver()
        slv.setOption('produce-models','true')
        slv.setOption('tlimit-per', str(int(timeout_s*1000)))
        parser = cvc5.InputParser(slv)
        parser.setStringInput(cvc5.InputLanguage.SMT_LIB_2_6, smt, 'lemma')
        sm = parser.getSymbolManager()
        t0 = time.time()
        res = None
        while True:
            cmd = parser.nextCommand()
            if cmd.isNull(): break
            out = cmd.invoke(slv, sm)
        r = slv.checkSat(); dt = time.time()-t0
        if r.isSat():
            vals = {}
            for t in sm.getDeclaredTerms():
                n = str(t)
                if n in names: vals[n] = _fp_lit_to_float(str(slv.getValue(t)))
            q.put(('cvc5','sat',vals,dt))
        elif r.isUnsat(): q.put(('cvc5','unsat',None,dt))
        else: q.put(('cvc5','unknown',str(r),dt))
    except Exception as e:
        q.put(('cvc5','error',repr(e),0.0))

class _Q:
    def __init__(self): self.items = []
    def put(self, x): self.items.append(x)

def solve(smt, names, timeout_s=120, z3_tactic=None):
    """Returns dict(status in sat|unsat|unknown, model, by, verdicts, times, disagreement)."""
    import subprocess, sys, tempfile, os, json, shutil
    d = tempfile.mkdtemp(prefix='symx_lemma_')
    try:
        f = os.path.join(d, 'lemma.smt2')
        open(f,'w').write(smt)
        env = dict(os.environ)
        ps = {n: subprocess.Popen([sys.executable, '-m', 'symx.portfolio', n, f, str(timeout_s), ','.join(sorted(names))],
                                  stdout=subprocess.PIPE, stderr=subprocess.DEVNULL, env=env, text=True) for n in ('z3','cvc5')}
        answers, t0, definite, grace = {}, time.time(), None, None
        while len(answers) < len(ps) and time.time()-t0 < timeout_s+15:
            for n,p in ps.items():
                if n in answers or p.poll() is None: continue
                try: a = json.loads(p.stdout.read().strip().splitlines()[-1])
                except Exception: a = [n,'error','no output',0.0]
                answers[n] = a
                if a[1] in ('sat','unsat') and definite is None:
                    definite = a; grace = time.time()+3
            if grace is not None and time.time() > grace: break
            time.sleep(0.2)
        for p in ps.values():
            if p.poll() is None: p.kill()
    finally:
        shutil.rmtree(d, ignore_errors=True)
    verdicts = {n:a[1] for n,a in answers.items()}
    times = {n:round(a[3],2) for n,a in answers.items()}
    dis = len({v for v in verdicts.values() if v in ('sat','unsat')}) > 1
    if definite is None:
        return dict(status='unknown', model=None, by=None, verdicts=verdicts, times=times, disagreement=False)
    model = definite[2]
    if isinstance(model, dict):
        model = {k:(float(v) if isinstance(v,str) else v) for k,v in model.items()}
    return dict(status=definite[1] if not dis else 'unknown', model=model, by=definite[0], verdicts=verdicts, times=times, disagreement=dis)

if __name__ == '__main__':
    import sys, json
    which, f, tmo, names = sys.argv[1], sys.argv[2], float(sys.argv[3]), set(sys.argv[4].split(','))
    q = _Q()
    smt = open(f).read()
    if which == 'z3': _run_z3(smt, names, q, tmo, None)
    else: _run_cvc5(smt, names, q, tmo)
    a = list(q.items[0])
    if isinstance(a[2], dict): a[2] = {k:(repr(v) if isinstance(v,float) else v) for k,v in a[2].items()}
    print(json.dumps(a))

"""Self-test of the executor (run by `./check --setup`): known-true and known-false obligations."""
import sys, math
import symx
from symx import Explorer, replay, Inconclusive

def t_sort(sym):
    xs = [sym.int(f'x{i}',-5,5) for i in range(3)]
    ys = sorted(xs)
    sym.check(ys[0] <= ys[1], 'sorted'); sym.check(ys[1] <= ys[2], 'sorted')
    sym.check(ys[0]+ys[1]+ys[2] == xs[0]+xs[1]+xs[2], 'sum')

def t_false(sym):
    x = sym.int('x',-10,10)
    y = x*x - 6*x          # == -9 only at x = 3
    sym.check(y != -9, 'x*x-6x != -9')

def t_floordiv(sym):
    a = sym.int('a',-7,7); b = sym.int('b',-3,3)
    sym.assume(b != 0)
    q, r = a//b, a%b
    sym.check(q*b + r == a, 'divmod identity')
    if b > 0: sym.check((r >= 0) & (r < b), 'mod sign')
    else: sym.check((r <= 0) & (r > b), 'mod sign')

def t_concretize(sym):
    i = sym.int('i',0,3)
    l = [10,11,12,13]
    sym.check(l[i] == 10+i, 'index')

def t_real(sym):
    a = sym.real('a',0,4,denom=4); b = sym.real('b',1,4,denom=4)
    sym.check((a+b)/2 <= max(a,b), 'mean <= max')

def t_fp(sym):
    x = sym.fp('x')
    sym.assume((x >= 1.0) & (x <= 2.0))
    sym.check(x*0.5*2.0 == x, 'exact halving')

def t_exc(sym):
    n = sym.size('n',0,2)
    l = list(range(n))
    if n == 0:
        try: l[sym.int('k',0,0)]
        except IndexError: sym.check(True,'raised'); return
        sym.fail('no IndexError')
    sym.check(len(l)==n,'len')

def main():
    ok = True
    for name, fn, expect in [('sort',t_sort,0),('false',t_false,1),('floordiv',t_floordiv,0),
                             ('concretize',t_concretize,0),('real',t_real,0),('fp',t_fp,0),('exc',t_exc,0)]:
        ex = Explorer()
        try:
            ex.explore(fn)
        except Inconclusive as e:
            print('selftest', name, 'INCONCLUSIVE', e); ok = False; continue
        nv = len(ex.violations)
        good = (nv > 0) == bool(expect)
        if expect and nv:
            v = ex.violations[0]
            rep, desc = replay(fn, v['model'], v['choices'])
            good = good and rep and v['model'].get('x') == 3
        print(f"selftest {name}: paths={ex.stats['paths']} queries={ex.stats['queries']} violations={nv} {'ok' if good else 'FAILED'}")
        ok = ok and good
    # concrete values through the same code paths give python semantics
    for a in range(-7,8):
        for b in (-3,-2,-1,1,2,3):
            ex = Explorer()
            def h(sym, a=a, b=b):
                x = sym.int('a',a,a); y = sym.int('b',b,b)
                sym.check(x//y == a//b, 'floordiv'); sym.check(x%y == a%b, 'mod')
            ex.explore(h)
            if ex.violations: print('selftest concrete-through-proxy FAILED', a, b); ok = False
    print('selftest', 'PASSED' if ok else 'FAILED')
    return 0 if ok else 2

if __name__ == '__main__':
    sys.exit(main())

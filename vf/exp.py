"""Shared experiment-level machinery for C01/C02/C03/C07: picklable component doubles, program menu,
reference run, in-process emulation of multi-process execution built only from coba's own stages."""
import pickle, copy, itertools, os, json, math

from coba.context import CobaContext, NullLogger, NullCacher, IndentLogger
from coba.environments import Environments
from coba.experiments import Experiment
from coba.experiments.process import MakeTasks, ChunkTasks, ProcessTasks
from coba.multiprocessing import CobaMultiprocessor
from coba.results import Result, TransactionEncode, TransactionDecode, TransactionResult
from coba.pipes import Pipes, ListSink, ListSource, DiskSink, DiskSource, Identity, Insert
from coba.learners import RandomLearner, BanditEpsilonLearner
from coba.evaluators import SequentialCB, RejectionCB
from coba.random import CobaRandom

# ---------------------------------------------------------------------------------------------------
class PmfLearner:
    """deterministic user learner answering with a PMF (greedy on running means, epsilon .5)"""
    def __init__(self): self.sums = {}; self.cnts = {}
    @property
    def params(self): return {'family':'pmf_double'}
    def _key(self, a): return repr(a)
    def predict(self, context, actions):
        means = [self.sums.get(self._key(a),0)/max(1,self.cnts.get(self._key(a),0)) for a in actions]
        best = means.index(max(means)); n = len(actions)
        return [0.5/n + (0.5 if i == best else 0) for i in range(n)]
    def learn(self, context, action, reward, probability):
        k = self._key(action); self.sums[k] = self.sums.get(k,0)+reward; self.cnts[k] = self.cnts.get(k,0)+1

class KwargsLearner:
    """stateful user learner returning (action, prob, kwargs); records its own call count in the kwargs"""
    def __init__(self, tag='k'): self.n = 0; self.learned = 0; self.tag = tag
    @property
    def params(self): return {'family':'kwargs_double','tag':self.tag}
    def predict(self, context, actions):
        self.n += 1
        i = (self.n + self.learned) % len(actions)
        return actions[i], 1/len(actions), {'i': self.n}
    def learn(self, context, action, reward, probability, i):
        assert i == self.n, "kwargs not handed back"
        self.learned += 1

class InfoLearner:
    """stateful user learner reporting diagnostics through CobaContext.learning_info from score/predict/learn"""
    def __init__(self, tag='i'): self.tag = tag; self.scored = 0; self.learns = 0; self.preds = 0
    @property
    def params(self): return {'family':'info_double','tag':self.tag}
    def score(self, context, actions, action):
        self.scored += 1
        CobaContext.learning_info['n_scored'] = self.scored
        return 1/len(actions)
    def predict(self, context, actions):
        self.preds += 1
        CobaContext.learning_info['n_preds'] = self.preds
        return actions[(self.preds + self.learns) % len(actions)], 1/len(actions)
    def learn(self, context, action, reward, probability):
        self.learns += 1
        CobaContext.learning_info['n_learns'] = self.learns

class CtxLearner:
    """stateless user learner whose pick depends on the context values (so that context-changing filters show in the rows)"""
    @property
    def params(self): return {'family':'ctx_double'}
    def predict(self, context, actions):
        k = int(abs(sum(float(x) for x in context))*1000) % len(actions)
        return actions[k], 1/len(actions)
    def learn(self, context, action, reward, probability): pass

class EmptyTagEval:
    """custom evaluator that yields NO rows for learners tagged 'empty' and two rows for everybody else"""
    @property
    def params(self): return {'eval':'empty_for_tag'}
    def evaluate(self, environment, learner):
        if getattr(learner, 'tag', None) == 'empty': return
        n = sum(1 for _ in environment.read())
        yield {'n': n, 'who': str(learner.params.get('family'))}
        yield {'n': n+1}

class CountingEval:
    """custom evaluator: yields what it saw; exposes whether the learner arrived pristine"""
    def __init__(self, tag='c'): self.tag = tag
    @property
    def params(self): return {'tag': self.tag}
    def evaluate(self, environment, learner):
        seen = getattr(learner,'learned',None) if hasattr(learner,'learned') else None
        n = 0
        for interaction in environment.read():
            n += 1
            a = learner.predict(interaction.get('context'), interaction['actions'])
        yield {'n': n, 'learner_prior_learns': seen, 'nested': [1.5,[2,3]], 'txt': 'a"b\nc,é'}
        yield {'n': n, 'other': None}

def function_eval(environment, learner):
    yield {'count': sum(1 for _ in environment.read())}

class ListEnv:
    """deterministic custom environment"""
    def __init__(self, name, n=4, k=3):
        self.name, self.n, self.k = name, n, k
    @property
    def params(self): return {'name': self.name, 'n': self.n}
    def read(self):
        for i in range(self.n):
            yield {'context': (i, (i*7+len(self.name)) % 5), 'actions': list(range(self.k)), 'rewards': [((i+a+len(self.name)) % 3)/2 for a in range(self.k)]}

def synth(seeds, n=6):
    return Environments.from_linear_synthetic(n, n_actions=3, n_context_features=2, n_action_features=2, seed=seeds)

# ---------------------------------------------------------------------------------------------------
# program menu: each entry builds FRESH components and returns Experiment constructor arguments
def prog_cross():
    return (synth([1,2]), [RandomLearner(), BanditEpsilonLearner(.1)], SequentialCB()), {}
def prog_chunk_shuffle():
    return (synth(1).chunk().shuffle(n=2), [BanditEpsilonLearner(.1), PmfLearner()], SequentialCB()), {}
def prog_cache_take():
    return (synth([1,2]).cache().take(4), [KwargsLearner(), RandomLearner()], [SequentialCB(), CountingEval()]), {}
def prog_tuples_shared():
    lrn = BanditEpsilonLearner(.1); lrn2 = KwargsLearner('t')
    e1, e2 = ListEnv('aa'), ListEnv('bbb', n=3)
    return ([(e1,lrn),(e2,lrn),(e1,lrn2,CountingEval('x')),(e2,lrn2,function_eval)],), {}
def prog_logged_rejection():
    envs = Environments(ListEnv('lg', n=6)).logged(RandomLearner(seed=2))
    return (envs, [BanditEpsilonLearner(.1)], [RejectionCB(), SequentialCB(learn='off', eval='ips')]), {}
def prog_custom_chunked():
    envs = Environments(ListEnv('c1'), ListEnv('c22')).chunk().shuffle(n=2)
    return (envs, [KwargsLearner(), BanditEpsilonLearner(.1)], [CountingEval(), SequentialCB()]), {}
def prog_one_env_two_evals():
    return (Environments(ListEnv('o')), [KwargsLearner()], [SequentialCB(), CountingEval()]), {}
def prog_logged_shuffle():
    envs = Environments(ListEnv('ls', n=5)).logged(RandomLearner(seed=2)).shuffle(n=2)
    return (envs, [BanditEpsilonLearner(.1)], [SequentialCB(learn='off', eval='ips')]), {}
def prog_info_mix():
    env = Environments(ListEnv('im', n=6)).logged(RandomLearner(seed=2))[0]
    env2 = ListEnv('im2', n=3)
    return ([(env, InfoLearner('a'), RejectionCB(record=['reward','action'])), (env, BanditEpsilonLearner(.1, seed=7), SequentialCB(learn='off', eval='on')),
             (env2, InfoLearner('b'), SequentialCB()), (env2, RandomLearner(seed=4), SequentialCB()), (env2, RandomLearner(seed=5), CountingEval('z'))],), {}
def prog_rejection_seeded():
    envs = Environments(ListEnv('rs', n=8)).logged(RandomLearner(seed=2))
    return (envs, [BanditEpsilonLearner(.1, seed=1), RandomLearner(seed=3), InfoLearner('r')], [RejectionCB(seed=3)]), {}
def prog_empty_eval():
    envs = Environments(ListEnv('ee'), ListEnv('fff', n=3)).chunk()
    return (envs, [KwargsLearner('empty'), BanditEpsilonLearner(.1, seed=1), RandomLearner(seed=2)], [EmptyTagEval()]), {}
def prog_scaled_shuffle():
    envs = synth(1, n=8).shuffle(n=3).scale('mean','std',using=3)
    return (envs, [CtxLearner()], [SequentialCB(record=['reward','context'])]), {}
def prog_peeked_cache():
    # the user looks at the first interaction of a cached environment (more than one cache slice of 25) before running the experiment
    envs = Environments(ListEnv('pk', n=30)).cache()
    next(iter(envs[0].read()))
    return (envs.shuffle(n=2), [BanditEpsilonLearner(.1, seed=1), KwargsLearner()], SequentialCB()), {}
def prog_single():
    return (Environments(ListEnv('s')), RandomLearner(), SequentialCB()), {}

PROGRAMS = {'cross':prog_cross, 'chunk_shuffle':prog_chunk_shuffle, 'cache_take':prog_cache_take, 'tuples_shared':prog_tuples_shared,
            'logged_rejection':prog_logged_rejection, 'custom_chunked':prog_custom_chunked, 'one_env_two_evals':prog_one_env_two_evals, 'logged_shuffle':prog_logged_shuffle, 'single':prog_single,
            'info_mix':prog_info_mix, 'rejection_seeded':prog_rejection_seeded, 'empty_eval':prog_empty_eval, 'scaled_shuffle':prog_scaled_shuffle, 'peeked_cache':prog_peeked_cache}

# ---------------------------------------------------------------------------------------------------
def reset_context():
    """what a freshly spawned interpreter has (no .coba config of the sandbox)"""
    CobaContext.search_paths = []
    CobaContext._cacher = NullCacher()
    CobaContext._logger = NullLogger()
    CobaContext._store = {}
    CobaContext.learning_info.clear()

def comparable(result, drop_time=True):
    """the four tables + experiment dict as plain data (timing columns removed)"""
    out = {}
    for name, t in (('environments',result.environments),('learners',result.learners),('evaluators',result.evaluators),('interactions',result.interactions)):
        cols = [c for c in t.columns if not (drop_time and 'time' in str(c))]
        rows = [dict(zip(cols,r)) for r in zip(*[t[c] for c in cols])] if len(t) else []
        out[name] = dict(columns=list(cols), rows=[{k:_norm(v) for k,v in r.items()} for r in rows])
    out['experiment'] = dict(result.experiment)
    return out

def _norm(v):
    if isinstance(v,float) and v != v: return 'nan'
    if v.__class__.__name__ == 'MissingType': return 'Missing'
    if isinstance(v,(list,tuple)): return [_norm(x) for x in v]
    return v

def diff(a, b):
    """first difference between two comparable() dicts, or None"""
    for k in ('experiment','environments','learners','evaluators','interactions'):
        if k == 'experiment':
            if a[k] != b[k]: return f"experiment dict {a[k]} != {b[k]}"
            continue
        if a[k]['columns'] != b[k]['columns']: return f"{k} columns {a[k]['columns']} != {b[k]['columns']}"
        if len(a[k]['rows']) != len(b[k]['rows']): return f"{k}: {len(a[k]['rows'])} rows != {len(b[k]['rows'])} rows"
        for i,(x,y) in enumerate(zip(a[k]['rows'],b[k]['rows'])):
            if x != y: return f"{k} row {i}: {x} != {y}"
    return None

def run_real(prog, result_file=None, seed=1, **cfg):
    reset_context()
    args, kw = PROGRAMS[prog]()
    return Experiment(*args, **kw).run(result_file, quiet=True, seed=seed, **cfg)

def make_stages(prog, restored=None, mt=0):
    args, kw = PROGRAMS[prog]()
    exp = Experiment(*args, **kw)
    tasks = list(MakeTasks(exp._triples, restored).read())
    chunks = list(ChunkTasks(mt).filter(tasks))
    n_l = len(set([l for _,l,_ in exp._triples])); n_e = len(set([e for e,_,_ in exp._triples]))
    return exp, chunks, {'n_learners':n_l,'n_environments':n_e,'description':exp._description}

class EmuMP:
    """Stand-in for CobaMultiprocessor inside the REAL Experiment.run: every chunk reaches a 'worker' as a pickled copy together with a
    pickled ProcessFilter (what a spawned child receives); the worker runs in a context reset to import-time defaults; worker outputs reach
    the encoder in the order selected by `arrival`."""
    arrival = 'identity'
    on_chunk = None
    def __init__(self, filter, processes=1, maxtasksperchild=0, chunked=False):
        self._filter = filter
    def filter(self, items):
        outputs = []
        saved = (CobaContext._logger, CobaContext._cacher, CobaContext._store, getattr(CobaContext,'search_paths',None))
        store = dict(CobaContext.store)
        try:
            for ci,chunk in enumerate(items):
                pf = CobaMultiprocessor.ProcessFilter(self._filter, NullLogger(), NullCacher(), dict(store), ListSink())
                pf2, chunk2 = pickle.loads(pickle.dumps((pf, chunk)))
                reset_context()
                outs = pickle.loads(pickle.dumps(list(pf2.filter(chunk2))))     # results travel back through a pipe
                if EmuMP.on_chunk: EmuMP.on_chunk(ci, chunk2, outs)
                outputs.append(outs)
        finally:
            CobaContext._logger, CobaContext._cacher, CobaContext._store = saved[:3]
            CobaContext.learning_info.clear()
        a = EmuMP.arrival
        if a == 'reversed': outputs = outputs[::-1]
        elif a == 'interleave': outputs = outputs[1::2] + outputs[0::2]
        elif a == 'rotate': outputs = outputs[1:] + outputs[:1]
        for outs in outputs: yield from outs

def emulate(prog, seed=1, mc=0, mt=0, arrival='identity', result_file=None, on_chunk=None, triples=None):
    """The real Experiment.run with its multiprocessor replaced by the in-process worker emulation."""
    import coba.experiments.core as core
    reset_context()
    old = core.CobaMultiprocessor
    core.CobaMultiprocessor = EmuMP
    EmuMP.arrival, EmuMP.on_chunk = arrival, on_chunk
    try:
        if triples is not None: e = Experiment(triples)
        else:
            args, kw = PROGRAMS[prog]()
            e = Experiment(*args, **kw)
        return e.run(result_file, quiet=True, seed=seed, processes=2, maxchunksperchild=mc, maxtasksperchunk=mt)
    finally:
        core.CobaMultiprocessor = old
        EmuMP.arrival, EmuMP.on_chunk = 'identity', None

def run_real_subprocess(prog, seed, processes, mc, mt, result_file=None, timeout=120):
    """a REAL multi-process Experiment.run in a separate interpreter (pool workers are daemonic and may not spawn)"""
    import subprocess, sys
    code = ("import sys,json,warnings; warnings.simplefilter('ignore')\n"
            "from vf import exp\n"
            "if __name__ == '__main__':\n"
            f"    r = exp.run_real({prog!r}, result_file={result_file!r}, seed={seed}, processes={processes}, maxchunksperchild={mc}, maxtasksperchunk={mt})\n"
            "    print('RESULT'+json.dumps(exp.comparable(r), default=str))\n")
    import tempfile
    d = tempfile.mkdtemp(prefix='vf_real_')
    try:
        f = os.path.join(d,'run_real_main.py'); open(f,'w').write(code)
        env = dict(os.environ); env['PYTHONPATH'] = os.environ.get('VERIF_REPO','/repo') + ':' + os.path.dirname(os.path.dirname(os.path.abspath(__file__)))
        out = subprocess.run([sys.executable, '-W', 'ignore', f], capture_output=True, text=True, timeout=timeout, env=env, cwd=d)
        line = next((l for l in out.stdout.splitlines() if l.startswith('RESULT')), None)
        if line is None: raise RuntimeError(f"real run produced no result: {out.stderr[-800:]}")
        return json.loads(line[6:])
    finally:
        import shutil; shutil.rmtree(d, ignore_errors=True)

from vf.run import main
main()

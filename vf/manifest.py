"""Generates /verif/MANIFEST.json from the table below (python -m vf.manifest)."""
import json, os
HERE = os.path.dirname(os.path.dirname(os.path.abspath(__file__)))

TECH = "bounded symbolic execution of the real coba code on z3-backed proxy values (symx): every branch and assertion decided by the SMT solver over all values within the stated bounds; counterexamples replayed on the unmodified code"
NOTE = "Trusted: z3 5.1, CPython, the symx proxies (validated by ./check --setup self-tests and by replaying every counterexample without proxies). Bounds per obligation are in the evidence file; nothing outside them is claimed."

CLAIMED = {
 'C19': dict(design='C19', text="Rely/guarantee with a symbolic environment: one caller runs the real ConcurrentCacher.get_set / rmv from the between-operations state while the shared counter of its slot and the inner cache's membership are havocked (within the lock-table invariant) at every lock entry and sleep, which stands for any number of other callers in any interleaving; z3 decides every branch. Each atomic block preserves the invariant, the inner cache is read only under a lock and changed only under the write lock, the getter runs only under the write lock on a missing key, and on every exit path all own entries are released. Nested calls on the same/another key and DiskCacher's failure control flow are executed on top.",
             note="spin loops unrolled once (twice thorough), liveness under fairness outside; DiskCacher torn files (zlib/C I/O) not encoded - only its control flow on an enumerated fault position"),
 'C20': dict(design='C20', text="InteractionsEncoder.encode executed on symbolic integer features; every output entry is a z3 polynomial and is matched one-to-one with the reference monomials by z3-decided polynomial identities valid for all integers; structure (term list, lengths, dense/sparse/string/scalar/None kinds, encoder re-use across calls) enumerated within bounds.",
             note="degree<=4, length<=4 quick (5,5 thorough); absent namespaces and repeated identical terms outside the claim"),
 'C01': dict(design='C01', text="The real in-process Experiment.run is compared with an in-process emulation of worker execution assembled only from coba's own stages (MakeTasks, ChunkTasks with a z3-integer maxtasksperchunk, ProcessFilter/ProcessTasks on pickled chunks in a reset context, TransactionEncode/Decode/Result) under solver-enumerated arrival orders of worker outputs, for 9 programs (shared chunk/cache prefixes, shuffle fan-out, stateful/PMF/kwargs learners, SequentialCB/RejectionCB/custom evaluators, tuple lists with shared objects) and two seeds; real spawn-based multi-process runs must equal both.",
             note="finite configuration/schedule enumeration (no value reasoning); real OS schedules only through 2 (quick) / 10 (thorough) real runs", technique="bounded symbolic execution (symx/z3) used to enumerate the configuration and arrival-order space exhaustively over the real pipeline stages; translation validation of the emulation against real multi-process runs"),
 'C03': dict(design='C03', text="Experiments whose triple list (<=3 triples over 2 environments x 2 learner objects x 2 evaluators, indices as z3 integers: every sharing pattern and order), learner kind, fault position (environment params/read, learner predict/learn at call j, evaluator) and execution mode (in-process; emulated workers over plain or chunked environments with maxtasksperchunk 0..2) are solver-enumerated: each triple's rows must equal those of the same triple run alone on a fresh learner, failing triples contribute no rows and are reported in the log, shared user learner objects stay untouched.",
             note="finite enumeration through z3 integers, no value reasoning; worker processes emulated as in C01", technique="bounded symbolic execution (symx/z3) enumerating sharing patterns, fault positions and configurations exhaustively over the real experiment pipeline; differential oracle against single-triple runs"),
 'C05': dict(design='C05', text="CobaRandom executed from an arbitrary symbolic generator state: the LCG step is proved a bijection on all 2^30 states (bit-vectors), uniforms are exact dyadic reals, randint/randints/shuffle/choice/choicew/gauss contracts and instance/module/stdlib interleavings are z3 queries over all states or over an arbitrary grid-valued uniform stream; random(min,max) is decided bit-exactly in QF_FP by a z3||cvc5 portfolio.",
             note="stubs: int() in coba.random identity on proxies; libm by contract; arbitrary-stream stub justified by the bijection obligation; seed=None and |bounds|>2^20 outside", engine='symx + z3||cvc5 FP lemmas'),
 'C06': dict(design='C06', text="The real SequentialCB.evaluate (SafeLearner, Finalize, BatchSafe, OpeRewards IPS, Unbatch, reward classes) runs on environments with symbolic contexts, rewards, logged rewards/probabilities and extra fields against a recording learner double whose picks are solver-enumerated and whose probabilities are symbolic; the full call trace and every yielded row are compared with the statement for all learn x eval x record-set x shape combinations, incl. rejection of environments lacking required fields, varying action sets and PMF-answering learners.",
             note="N<=2 (3 thorough); dr/dm, batched environments and torch outside the claim"),
 'C09': dict(design='C09', text="Take/Slice/Shuffle/Reservoir/Sort/Riffle/Where/Cache/Chunk/Params/Identity/Batch+Unbatch and the Environments shortcuts run on interaction sequences with symbolic features and symbolic parameters; randomised filters run on an arbitrary grid-valued uniform stream (so permutation and distinct-sample claims hold for every seed), libm by contract for Reservoir; outputs compared with explicit reference models (prefix, slice, stable sort, permutation, bounds) by z3.",
             note="N<=3..4; determinism in the seed on concrete seeds only; torch batches and Sort() on scalar contexts outside"),
 'C15': dict(design='C15', text="SafeLearner.predict/learn driven by a learner double answering consistently in each documented format (bare action, (action,prob), PMF, three dict hints; with/without kwargs; single, row-major, column-major, not-batch-capable) over 8 action kinds, 1-3 actions and batch sizes 1-3: action identity, stated probability, kwargs round-trip to learn and seeded PMF draws (symbolic PMFs, existential inverse-CDF oracle) decided by z3; plus reproducibility of PMF draws from the evaluator seed.",
             note="bare dict actions in batches (ambiguous by design), one-action PMF columns, numpy/torch outside the claim"),
 'C11': dict(design='C11', text="Scale.filter and Impute.filter (with Mutable, iqr/percentile and the Environments.scale/impute shortcuts) run on dense, sparse and scalar contexts whose numeric features are exact symbolic reals with missing values at solver-enumerated positions (incl. the first row); min/max/median/iqr/mode fork on z3-decided comparisons; every output feature is compared with an independently written reference over the fitting window in exact arithmetic.",
             note="N=3, 2 features; fmean->sum/len, stdev->uninterpreted sigma(window) with recorded argument; features with no known value in the window and mode ties outside the claim"),
 'C14': dict(design='C14', text="SupervisedSimulation / Environments.from_supervised on (X,Y) data with z3-integer labels (label coincidence decided by the solver), symbolic regression targets and probe actions, enumerated multi-label sets with list-valued probe actions (Jaccard as exact rational), and end-to-end on CSV/ARFF/LibSVM/Manik text with the label column by index or header, sparse and dense features, with and without take: action set == distinct labels, context == features without the label, reward 1 exactly for the true label.",
             note="<=3 examples; text sources over a small concrete vocabulary (csv/re are C); nominal ARFF labels offer the declared levels"),
 'C10': dict(design='C10', text="Chains of Repr, Flatten, Sparsify, Densify, Noise(action), Batch, Finalize and the Environments shortcuts run on interactions of 7 action kinds whose reward values, logged reward and probability are symbolic reals: for every position the i-th action of the new representation must earn the i-th original reward (list, BinaryReward, DiscreteReward, L1Reward or arbitrary callable) as a z3-decided identity, and the logged action must stay the same member of the action set.",
             note="single filters + 8 two-filter chains quick, all ordered pairs thorough; actions are concrete objects"),
 'C13': dict(design='C13', text="Row pipelines built from the real HeadRows/EncodeRows/DropRows/LabelRows over list/tuple/LazyDense/dict/LazySparse bases run on symbolic integer cells with affine encoders; symbolic positions and row predicates fork in the solver; every access kind, in forward and reverse order, is compared with an eager list/dict model; plus the real ArffReader's lazy rows over a grid of missing-value placements.",
             note="width<=3 (4 thorough), 2 rows; EncodeCatRows, negative/out-of-range positions outside the claim"),
 'C16': dict(design='C16', text="Random/Fixed/BanditEpsilon/BanditUCB and Misguided wrappers run through solver-enumerated histories (3 rounds, changing action sets incl. unseen and disappearing actions, hashable/int/dense/sparse actions, on-policy and logged learning) with symbolic rewards; ties between value estimates and UCB bounds (sqrt by contract) are decided by z3 so every tie pattern is reached; score() must be a distribution over the offered actions and predict() must return an offered action with exactly its score. Corral: enumerated concrete grid only (its root search is not symbolically encodable).",
             note="Corral's 1e-4 weight claim is checked on a concrete grid of 3-round histories only and stated as such; T<=3 (4 thorough)"),
 'C18': dict(design='C18', text="Result.where/where_fin/where_best/raw_learners and moving_average on Results with symbolic rewards and solver-enumerated existing triples, lengths and (duplicate) parameter values: kept pairing groups compared with an independent set-based definition, referential integrity both ways, unchanged remaining values, and every progressive/windowed/final average compared with a naive recomputation as a z3-decided real-arithmetic identity; moving_average vs its textbook definition for every span and weighting.",
             note="<=2x2x2 triples quick (3x3x1, 3x2x2 thorough); mean->sum/len stub; exp-weighted average up to 1e-9 (its divisor is accumulated in floats)"),
 'C17': dict(design='C17', text="Table.insert/index/where/groupby/copy run on symbolic integer cells; orderings are decided by z3 inside the real sorted/bisect calls; every operator, form, index column list and short operation history within the bounds is compared with a row-by-row list model. Bounded (rows<=3 quick, <=4 thorough), exhaustive within the bound.",
             note="cells int[-1,1] or Missing; 'match'/regex outside the claim; Missing ordering reference = the table's own scan path"),
}
PENDING = {}   # id -> reason (properties not claimed)

def main():
    props = [json.loads(l) for l in open(os.path.join(HERE,'properties.jsonl'))]
    checks, na = [], []
    for p in props:
        i = p['id']
        if i in CLAIMED:
            c = CLAIMED[i]
            checks.append(dict(property_id=i, quick_cmd=f"./check {i} --tier quick", thorough_cmd=f"./check {i} --tier thorough",
                               evidence_file=f"evidence/{i}.json", replay_cmd_template=f"./check {i} --replay {{path}}",
                               engine=c.get('engine','symx'),
                               level_claimed=dict(category='model_checking', text=c['text'], design_ref=f"DESIGN.md §2 {c['design']}"),
                               level_note=NOTE+" "+c.get('note',''), technique=c.get('technique',TECH)))
        else:
            na.append(dict(property_id=i, reason=PENDING.get(i, "check not built yet in this session (work in progress); not claimed")))
    m = dict(version=1, setup_cmd="./check --setup",
             hooks=dict(guard="COBA_VERIF", enable="none needed: checks import /repo's working tree directly (PYTHONPATH=/repo); no guarded source hooks exist",
                        baseline_off_cmd="cd /repo && /venv/bin/python -m pytest -ra -q -p no:cacheprovider --timeout=900 --continue-on-collection-errors",
                        source_commits=[], add_only=True),
             engines=[dict(name='symx', path='symx/', serves_properties=sorted(CLAIMED), kind_free_text="proxy-object dynamic symbolic executor over z3 (Int/Real/FP/BV), DFS by re-execution, replay of models on the real code")],
             checks=checks, not_applicable=na,
             notes="See DESIGN.md. Exit codes: 0 held / known findings only, 1 VIOLATION, 2 harness error. Inconclusive obligations are listed in the evidence and never counted as discharged.")
    json.dump(m, open(os.path.join(HERE,'MANIFEST.json'),'w'), indent=1)
    import jsonschema
    jsonschema.validate(m, json.load(open('/root/.vp/MANIFEST.schema.json')))
    print("MANIFEST.json written:", len(checks), "claimed,", len(na), "not claimed")

if __name__ == '__main__':
    main()

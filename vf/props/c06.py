"""C06 Sequential evaluation feeds and records exactly what the environment provides."""
from vf.run import obligation
from symx import is_sym

from coba.evaluators.sequential import SequentialCB
from coba.exceptions import CobaException
from coba.context import CobaContext, NullLogger

EXPLANATION = ("The real SequentialCB.evaluate (with SafeLearner, Finalize, BatchSafe, OpeRewards('IPS'), Unbatch and the reward classes) runs on "
               "environments whose contexts, rewards, logged rewards/probabilities and extra fields are z3 values and whose recording learner "
               "answers with a solver-enumerated action index and a symbolic probability; the call trace and the yielded rows are compared "
               "with the statement's specification by z3-decided equalities, for every learn x eval x record x shape combination in the bound.")
ASSUMPTIONS = ["actions are concrete distinct ints ({10,11,12} or {0,1,2}); which one the learner picks is enumerated",
               "rewards / probabilities are exact dyadic reals k/4; IPS transform compared as an exact real identity",
               "'dr'/'dm' (vowpalwabbit), torch batches and the values of the time columns are outside the claim (presence only)",
               "an IPS mode on an environment without 'probability' is NOT required to be rejected (the code documents a default of 1)"]
FUNCS = ['coba.evaluators.sequential:SequentialCB.evaluate','coba.evaluators.sequential:SequentialCB._results','coba.evaluators.sequential:SequentialCB._required',
         'coba.evaluators.sequential:SequentialCB._validate','coba.safety:SafeLearner.predict','coba.safety:SafeLearner.learn','coba.safety:SafeLearner._parse_pred',
         'coba.environments.filters:Finalize','coba.environments.filters:BatchSafe','coba.environments.filters:Unbatch','coba.environments.filters:OpeRewards',
         'coba.environments.filters:Repr','coba.environments.filters:Harden','coba.primitives:DiscreteReward','coba.primitives:BinaryReward']

CobaContext.logger = NullLogger()

RECORDS = [['reward','action','probability'], ['reward','time','probability','action','context','actions','rewards'], ['time'], ['context','actions','rewards'], [], ['reward','probability'], ['action'], ['action','probability'], ['reward']]

class Env:
    def __init__(self, interactions): self._i = interactions
    def read(self): return iter([dict(i) for i in self._i])

class Recorder:
    """Recording learner double: picks a solver-enumerated member of the offered actions."""
    def __init__(self, sym, trace, with_kw, bare=False):
        self.sym, self.trace, self.with_kw, self.n, self.bare = sym, trace, with_kw, 0, bare
    def predict(self, context, actions):
        i = self.n; self.n += 1
        idx = self.sym.choice(f'pick{i}', range(len(actions)))
        p = None if self.bare else self.sym.real(f'p{i}', 0, 1, denom=4)        # 0 included: a learner may report probability 0
        self.trace.append(('predict', i, context, list(actions), idx, p))
        if self.bare: return actions[idx]                     # a bare action, no probability
        if self.with_kw: return actions[idx], p, {'kw': 100+i}
        return actions[idx], p
    def learn(self, context, action, reward, probability, **kw):
        self.trace.append(('learn', context, action, reward, probability, kw))

class ScoreRecorder(Recorder):
    def score(self, context, actions, action):
        if context is None and actions is None and action is None: return 1   # SafeLearner.has_score probe
        i = self.n; self.n += 1
        s = self.sym.real(f's{i}', 0.25, 1, denom=4)
        self.trace.append(('score', i, context, None if actions is None else list(actions), action, s))
        return s

def params(tier):
    ns = (2,) if tier == 'quick' else (2,3)
    ps = []
    for n in ns:
        for learn in ('on','off','ips',None):
            for ev in ('on','ips',None):
                for rec in range(len(RECORDS)):
                    if n == 3 and rec not in (0,1): continue
                    ps.append(dict(n=n, learn=learn, ev=ev, rec=rec))
    return ps

def _ctx_eq(a, b):
    if a is None or b is None: return a is b
    if isinstance(b, dict): return dict(a) == b
    if isinstance(b, (list,tuple)): return list(a) == list(b)
    return a == b

def _classify(v):
    w = v['what']
    if 'UnboundLocalError' in w: return "learn=None with 'time' recorded: UnboundLocalError learn_time"
    return w.split(' @')[0][:100]

@obligation('C06','trace', bounds={'quick':"N=2 interactions; context kind in {None,scalar,dense 2-tuple,sparse 2-key dict} (symbolic ints); 3 actions (one-hot vectors with a bare-action learner when there is no context, {10,11,12} for dense, {0,1,2} for scalar/sparse contexts); rewards list or function (symbolic k/4); optional logged action (fixed index (i+1) mod 3)/reward/probability (all, none, or one missing); extra field; learner with/without kwargs, with/without score(); learn x eval x 8 record sets",
                                   'thorough':"N=2 and 3"},
            functions=FUNCS, params=params, classify=_classify, budget={'quick':80,'thorough':900})
def trace(sym, n, learn, ev, rec):
    record = RECORDS[rec]
    ctx_kind = sym.choice('ctx', ['none','scalar','dense','sparse'])
    # tied to the context kind to bound the product; without a context the actions are one-hot vectors (which look like a PMF) and the learner answers with a bare action
    act_set  = [(1,0,0),(0,1,0),(0,0,1)] if ctx_kind == 'none' else [10,11,12] if ctx_kind == 'dense' else [0,1,2]
    bare     = ctx_kind == 'none'
    rw_kind  = sym.choice('rw', ['list','func','absent'])
    logged   = sym.choice('logged', ['none','all','no_prob','no_reward','no_action'])
    with_kw  = ctx_kind in ('scalar','dense')                                 # tied likewise
    scorer   = sym.flag('score')
    # two shapes without 'actions': one with a scoring learner, one with a learner that has no score()
    has_acts = not ((ctx_kind == 'dense' and rw_kind == 'absent' and logged in ('all','none') and scorer) or (ctx_kind == 'sparse' and rw_kind == 'absent' and logged == 'all' and not scorer))
    if not has_acts and scorer and ('action' in record or 'probability' in record): sym.assume(False)   # the double needs offered actions to pick from
    inter, R, L = [], [], []
    for i in range(n):
        d = {}
        if ctx_kind == 'scalar': d['context'] = sym.int(f'x{i}', -3, 3)
        elif ctx_kind == 'dense': d['context'] = (sym.int(f'x{i}', -3, 3), sym.int(f'y{i}', -3, 3))
        elif ctx_kind == 'sparse': d['context'] = {'a': sym.int(f'x{i}', -3, 3), 'b': sym.int(f'y{i}', -3, 3)}
        if has_acts: d['actions'] = list(act_set)
        rw = [sym.real(f'r{i}_{k}', -1, 2, denom=4) for k in range(3)]
        R.append(rw)
        if rw_kind == 'list': d['rewards'] = list(rw)
        elif rw_kind == 'func':
            d['rewards'] = (lambda a, rw=rw, acts=act_set: rw[[k for k,x in enumerate(acts) if x == a][0]])
        lg = dict(action=act_set[(i+1) % 3], reward=sym.real(f'lr{i}', -1, 2, denom=4), probability=sym.real(f'lp{i}', 0.25, 1, denom=4))
        L.append(lg)
        if logged != 'none':
            for k in ('action','reward','probability'):
                if logged == 'no_prob' and k == 'probability': continue
                if logged == 'no_reward' and k == 'reward': continue
                if logged == 'no_action' and k == 'action': continue
                d[k] = lg[k]
        d['extra'] = sym.int(f'e{i}', 0, 9)
        inter.append(d)
    tr = []
    lrn = (ScoreRecorder if scorer else Recorder)(sym, tr, with_kw, bare)
    evaluator = SequentialCB(record=record, learn=learn, eval=ev, seed=1)
    # ---- which fields does the chosen mode need (the statement's table) ----
    need = set()
    pred_needed = (learn in ('on','ips')) or (ev == 'on') or (ev == 'ips' and not scorer)
    if pred_needed: need.add('actions')
    if learn in ('off','ips') or ev == 'ips': need.update(['action','reward'])
    if learn == 'on' or ev == 'on': need.add('rewards')
    have = set(inter[0].keys())
    try:
        rows = list(evaluator.evaluate(Env(inter), lrn))
    except CobaException as e:
        sym.check(bool(need - have), f"environment has every field that learn={learn},eval={ev} needs but was rejected: {e}")
        sym.check(len(tr) == 0, "environment rejected only after the learner had already been called")
        return
    sym.check(not (need - have), f"environment lacks {sorted(need-have)} needed by learn={learn},eval={ev} but was evaluated")
    # ---- expected trace ----
    out_action = 'action' in record and ev
    out_prob   = 'probability' in record and ev
    should_pred = pred_needed or bool(out_action) or bool(out_prob)
    sym.check(len(rows) == (n if (record or True) else 0), f"one row per interaction: {len(rows)} rows for {n} interactions")
    ti = 0
    for i in range(n):
        d, lg, rw = inter[i], L[i], R[i]
        ctx = d.get('context')
        ips = lambda a, lg=lg: (lg['reward']/(lg['probability'] if 'probability' in d else 1)) if a == lg['action'] else 0
        on_a = on_p = None
        score = None
        if should_pred:
            sym.check(ti < len(tr) and tr[ti][0] == 'predict', f"interaction {i}: predict expected");
            _, k, pctx, pacts, idx, on_p = tr[ti]; ti += 1
            sym.check(_ctx_eq(pctx, ctx), f"interaction {i}: predict got a different context")
            sym.check(pacts == list(act_set), f"interaction {i}: predict got different actions {pacts}")
            on_a = act_set[idx]
        elif ev == 'ips' and scorer:
            sym.check(ti < len(tr) and tr[ti][0] == 'score', f"interaction {i}: score expected")
            _, k, sctx, sacts, sact, score = tr[ti]; ti += 1
            sym.check(_ctx_eq(sctx, ctx) and sacts == (list(act_set) if has_acts else None) and sact == lg['action'], f"interaction {i}: score called with wrong arguments")
        if learn:
            sym.check(ti < len(tr) and tr[ti][0] == 'learn', f"interaction {i}: learn expected after predict")
            _, lctx, lact, lrwd, lprob, lkw = tr[ti]; ti += 1
            sym.check(_ctx_eq(lctx, ctx), f"interaction {i}: learn got a different context")
            if learn == 'off':
                sym.check(lact == lg['action'], f"interaction {i}: off-policy learn must get the logged action")
                sym.check(lrwd == lg['reward'], f"interaction {i}: off-policy learn must get the logged reward")
                sym.check((lprob == lg['probability']) if 'probability' in d else (lprob is None), f"interaction {i}: off-policy learn must get the logged probability")
                sym.check(lkw == {}, f"interaction {i}: off-policy learn gets no kwargs")
            else:
                sym.check(lact == on_a, f"interaction {i}: learn must get the action the learner chose")
                exp_r = rw[act_set.index(on_a)] if learn == 'on' else ips(on_a)
                sym.check(lrwd == exp_r, f"interaction {i}: learn reward is not the {'environment' if learn=='on' else 'IPS'} reward of the chosen action")
                sym.check(lprob == on_p, f"interaction {i}: learn must get the learner's own probability")
                sym.check(lkw == ({'kw':100+k} if with_kw else {}), f"interaction {i}: kwargs not handed back unchanged")
        row = rows[i] if i < len(rows) else {}
        if 'reward' in record and ev:
            if ev == 'on': exp = rw[act_set.index(on_a)]
            elif should_pred: exp = ips(on_a)
            else: exp = score*ips(lg['action'])
            sym.check('reward' in row and row['reward'] == exp, f"interaction {i}: recorded reward")
        else:
            sym.check('reward' not in row or ('reward' in d and not ev and False), f"interaction {i}: reward recorded although not requested")
        if out_action: sym.check(row.get('action') == on_a, f"interaction {i}: recorded action")
        if out_prob:   sym.check(row.get('probability') == on_p, f"interaction {i}: recorded probability")
        if 'time' in record: sym.check('predict_time' in row and 'learn_time' in row, f"interaction {i}: time columns")
        if 'context' in record: sym.check(_ctx_eq(row.get('context'), ctx), f"interaction {i}: recorded context")
        if 'actions' in record and has_acts: sym.check(list(row.get('actions')) == list(act_set), f"interaction {i}: recorded actions")
        if 'rewards' in record and rw_kind != 'absent' and has_acts:
            sym.check(list(row.get('rewards')) == list(rw), f"interaction {i}: recorded rewards")
        sym.check(row.get('extra') == d['extra'], f"interaction {i}: extra field not carried unchanged")
    sym.check(ti == len(tr), f"unexpected extra learner calls: {[t[0] for t in tr[ti:]]}")

class PmfRecorder:
    """Learner double answering with a (degenerate, integer valued) PMF over the offered actions."""
    def __init__(self, sym, trace): self.sym, self.trace, self.n = sym, trace, 0
    def predict(self, context, actions):
        i = self.n; self.n += 1
        idx = self.sym.choice(f'pick{i}', range(len(actions)))
        self.trace.append(('predict', i, context, list(actions), idx, 1))
        return [1 if k == idx else 0 for k in range(len(actions))]
    def learn(self, context, action, reward, probability, **kw):
        self.trace.append(('learn', context, action, reward, probability, kw))

@obligation('C06','varying_actions', bounds="N=3 interactions whose action sets follow every pattern over two sets A,B of equal size (AAA,AAB,ABA,ABB,ABC with C of another size); learner = (action,prob) recorder or degenerate-PMF recorder; action sets drawn from {[10,11],[12,13],[1,2],[0,1],[0,5,6]}; learn=on, eval=on",
            functions=FUNCS, params=lambda tier: [dict(pat=p, kind=k) for p in ('AAA','AAB','ABA','ABB','ABC') for k in ('ap','pmf')])
def varying_actions(sym, pat, kind):
    A = sym.choice('A', [[10,11],[1,2],[0,1]]); B = sym.choice('B', [[12,13],[2,1],[1,2]]); C = [0,5,6]
    sets = [{'A':A,'B':B,'C':C}[c] for c in pat]
    inter, R = [], []
    for i,acts in enumerate(sets):
        rw = [sym.real(f'r{i}_{k}', -1, 2, denom=4) for k in range(len(acts))]
        R.append(rw)
        inter.append({'context': sym.int(f'x{i}',-3,3), 'actions': list(acts), 'rewards': list(rw)})
    tr = []
    lrn = PmfRecorder(sym, tr) if kind == 'pmf' else Recorder(sym, tr, False)
    rows = list(SequentialCB(learn='on', eval='on', seed=1).evaluate(Env(inter), lrn))
    sym.check(len(rows) == 3 and len(tr) == 6, "one predict+learn and one row per interaction")
    for i,acts in enumerate(sets):
        p, l = tr[2*i], tr[2*i+1]
        sym.check(p[0] == 'predict' and l[0] == 'learn', f"interaction {i}: predict then learn")
        sym.check(p[3] == list(acts), f"interaction {i}: predict was offered {p[3]} instead of this interaction's actions {acts}")
        sym.check(p[2] == inter[i]['context'], f"interaction {i}: predict context")
        a = acts[p[4]]
        sym.check(l[2] == a, f"interaction {i}: learn got action {l[2]} but the learner chose {a}")
        sym.check(l[3] == R[i][p[4]], f"interaction {i}: learn reward is not the environment's reward for the chosen action")
        sym.check(l[4] == p[5], f"interaction {i}: learn probability {l[4]} is not the learner's own probability")
        sym.check(rows[i]['action'] == a, f"interaction {i}: recorded action")
        sym.check(rows[i]['reward'] == R[i][p[4]], f"interaction {i}: recorded reward")
        sym.check(rows[i]['probability'] == p[5], f"interaction {i}: recorded probability {rows[i]['probability']} is not the learner's")


# ---------------------------------------------------------------------------------------------------
class BatchRecorder:
    """batch-capable recording learner: answers a batched call row-major with (action, probability) pairs"""
    def __init__(self, sym, trace): self.sym, self.trace, self.n = sym, trace, 0
    def predict(self, context, actions):
        rows = []
        for acts in actions:
            i = self.n; self.n += 1
            idx = self.sym.choice(f'pick{i}', range(len(acts))); p = self.sym.real(f'p{i}', 0.25, 1, denom=4)
            rows.append((acts[idx], p, idx))
        self.trace.append(('predict', list(context), [list(a) for a in actions], rows))
        return [(a,p) for a,p,_ in rows]
    def learn(self, context, action, reward, probability):
        self.trace.append(('learn', list(context), list(action), list(reward), list(probability)))

@obligation('C06','batched', bounds="environment of 3 or 4 interactions batched in twos (Batch(2): the last batch may hold one), dense symbolic contexts, 3 int actions, list rewards k/4; batch-capable learner answering row-major with (action, probability); learn=on, eval=on, record sets {reward,action,probability}, all, {action}, {action,probability}; with or without an extra environment field: every un-batched result row carries its own action, probability, reward and extra field; the learner is taught batch by batch with its own choices",
            functions=FUNCS+['coba.environments.filters:Batch.filter','coba.environments.filters:Unbatch._unbatch'], params=lambda tier: [dict(n=n, rec=r) for n in (3,4) for r in (0,1,6,7)], classify=_classify)
def batched(sym, n, rec):
    from coba.environments.filters import Batch
    record = RECORDS[rec]
    acts = [10,11,12]
    inter, R = [], []
    for i in range(n):
        rw = [sym.real(f'r{i}_{k}', -1, 2, denom=4) for k in range(3)]; R.append(rw)
        inter.append({'context': (sym.int(f'x{i}', -3, 3), i), 'actions': list(acts), 'rewards': list(rw), 'extra': sym.int(f'e{i}', 0, 9)})
    with_extra = sym.flag('extra_field')
    if not with_extra:
        for d in inter: del d['extra']
    class BEnv:
        def read(self): return Batch(2).filter(iter([dict(i) for i in inter]))
    tr = []
    rows = list(SequentialCB(record=record, learn='on', eval='on', seed=1).evaluate(BEnv(), BatchRecorder(sym, tr)))
    sym.check(len(rows) == n, f"{len(rows)} result rows for {n} interactions in batches of 2")
    # SafeLearner may probe the layout of a square answer (2 rows x 2 entries) with one extra one-row call right after the first answer: not counted
    first_learn = next((i for i,t in enumerate(tr) if t[0] == 'learn'), len(tr))
    preds = [t for i,t in enumerate(tr) if t[0] == 'predict' and not (0 < i < first_learn)]; learns = [t for t in tr if t[0] == 'learn']
    probes = [t for i,t in enumerate(tr) if t[0] == 'predict' and 0 < i < first_learn]
    sym.check(len(probes) <= 1 and all(len(t[3]) == 1 for t in probes), f"unexpected extra predict calls before the first learn: {[len(t[3]) for t in probes]}")
    said = [r for t in preds for r in t[3]]
    sym.check(len(said) == n and len(preds) == (n+1)//2, f"the learner was asked for {len(said)} rows in {len(preds)} batched calls")
    for i,(row,(a,p,idx)) in enumerate(zip(rows, said)):
        sym.check(row.get('action') == a, f"row {i}: recorded action {row.get('action')!r}, the learner chose {a}")
        if 'probability' in record: sym.check(row.get('probability') == p, f"row {i}: recorded probability is not the learner's own")
        if 'reward' in record: sym.check(row.get('reward') == R[i][idx], f"row {i}: recorded reward is not the reward of the chosen action")
        if 'probability' not in record: sym.check('probability' not in row, f"row {i}: probability recorded although not requested")
        if with_extra: sym.check(row.get('extra') == inter[i]['extra'], f"row {i}: extra field not carried unchanged")
    taught = [(a,r,p) for t in learns for a,r,p in zip(t[2],t[3],t[4])]
    sym.check(len(taught) == n, f"the learner was taught {len(taught)} rows")
    for i,((a,r,p),(sa,sp,idx)) in enumerate(zip(taught, said)):
        sym.check(a == sa and p == sp and r == R[i][idx], f"row {i}: learn got (action,reward,probability) that are not the learner's choice and its environment reward")

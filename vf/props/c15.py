"""C15 Every supported prediction format is understood the same way."""
import itertools
from vf.run import obligation
from symx import is_sym, And, Or

from coba.safety import SafeLearner
from coba.random import CobaRandom
from coba.environments.filters import Batch
from coba.context import CobaContext, NullLogger

CobaContext.logger = NullLogger()

EXPLANATION = ("The real SafeLearner.predict/learn (batch_order, has_kwargs, first_row, pred_format, _parse_pred, _safe_call fallback) is driven by a learner "
               "double that answers in one documented format consistently: the offered action object itself at a solver-enumerated index, a symbolic "
               "probability, a symbolic PMF (k/4 entries summing to 1) and an opaque kwargs payload, for single, row-major, column-major and "
               "not-batch-capable learners; what the evaluator receives is compared with what the learner said by z3-decided equalities, PMF draws "
               "against an independent inverse-CDF condition on the seeded uniform.")
ASSUMPTIONS = ["the learner uses one format consistently and returns the offered action objects themselves (identity), as the property's quantifier states",
               "PMF entries are exact dyadic reals k/4 (sum exactly 1); math.isclose sees the unique concrete value of the sum on each path",
               "PMF draw oracle is existential (any inverse-CDF member for the seeded uniform with non-zero mass), no tie-break pinned",
               "numpy/torch predictions outside the claim"]
FUNCS = ['coba.safety:SafeLearner.predict','coba.safety:SafeLearner.learn','coba.safety:SafeLearner._parse_pred','coba.safety:SafeLearner._safe_call',
         'coba.safety:SafeLearner._method2','coba.safety:SafeLearner.batch_order','coba.safety:SafeLearner.has_kwargs','coba.safety:SafeLearner.first_row',
         'coba.safety:SafeLearner.pred_format','coba.safety:SafeLearner.possible_pmf','coba.safety:SafeLearner.possible_action','coba.random:CobaRandom.choicew']

FORMATS = ['AX','AP','PM','AX*','AP*','PM*']
ACTION_KINDS = {
    'ints012':  lambda n: [0,1,2][:n],
    'ints12':   lambda n: [1,2,3][:n],
    'ints57':   lambda n: [5,6,7][:n],
    'floats':   lambda n: [0.25,0.75,0.5][:n],
    'strs':     lambda n: ['a','b','c'][:n],
    'onehot':   lambda n: [(1,0,0)[:max(n,2)],(0,1,0)[:max(n,2)],(0,0,1)[:max(n,2)]][:n],
    'lists':    lambda n: [[1,2],[3,4],[5,6]][:n],
    'sparse':   lambda n: [{'a':1},{'b':2},{'c':3}][:n],
    'sparse2':  lambda n: [{'a':1,'b':2},{'c':3,'d':4},{'e':5,'f':6}][:n],      # two-key dicts (len 2, like an (action,prob) pair)
}

class Tok:
    """opaque kwargs payload"""
    def __init__(self, i): self.i = i
    def __repr__(self): return f"Tok({self.i})"

class Double:
    def __init__(self, sym, fmt, kw, mode):
        self.sym, self.fmt, self.kw, self.mode = sym, fmt, kw, mode
        self.calls = []      # ('predict', said rows)  /  ('learn', args)
        self.n = 0
        self.flat = False                      # set by the harness: flat PMF + kwargs, only for >= 2 actions (a one-entry flat PMF [1,{..}] is the (action, kwargs) form)
    def _row(self, actions):
        i = self.n; self.n += 1
        n = len(actions)
        shape = None
        if self.fmt.startswith('PM') and i > 0:
            shape = self.sym.choice(f'shape{i}', ['onehot','skew'])
        idx = self.sym.choice(f'pick{i}', range(len(actions))) if shape != 'skew' else 0
        p = self.sym.real(f'p{i}', 0.25, 1, denom=4)
        if not self.fmt.startswith('PM'):
            pmf = [1/n]*n
        elif i == 0 and (pk := self.sym.choice('pmf0', ['symbolic','int_onehot'] + (['float_offsum'] if n == 3 else []))) == 'int_onehot':
            pmf = [1 if j == idx else 0 for j in range(n)]      # degenerate PMF written with ints (looks like actions 0/1)
        elif i == 0 and pk == 'float_offsum':
            pmf = [.3334,.3333,.3334]                            # concrete binary64 weights summing to 1.0001 (inside coba's documented PMF tolerance of 1e-3): the stated entry must be reported bit for bit
        elif i == 0:
            # fully symbolic PMF on the first row: entries k/4, sum exactly 1
            ks = [self.sym.int(f'm{i}_{j}', 0, 4) for j in range(n)]
            tot = 0
            for k in ks: tot = tot + k
            self.sym.assume(tot == 4)
            pmf = [k/4 for k in ks]
        else:
            # later rows: enumerated representatives (one-hot at the pick, uniform, skewed)
            pmf = {'onehot': [1.0 if j == idx else 0.0 for j in range(n)],
                   'skew': ([0.75]+[0.25/(n-1)]*(n-1)) if n > 1 else [1.0]}[shape]
        return dict(idx=idx, a=actions[idx], p=p, pmf=pmf, tok=Tok(i), tok2=Tok(100+i), i=i, actions=list(actions))
    @staticmethod
    def _kwr(r):
        # two keys whose insertion order differs from row to row (a learner may build its kwargs along different branches)
        return {'k': r['tok'], 'j': r['tok2']} if r['i'] % 2 == 0 else {'j': r['tok2'], 'k': r['tok']}
    def _one(self, r):
        f = self.fmt
        body = {'AX': r['a'], 'AP': (r['a'], r['p']), 'PM': list(r['pmf']), 'AX*': {'action': r['a']},
                'AP*': {'action_prob': (r['a'], r['p'])}, 'PM*': {'pmf': list(r['pmf'])}}[f]
        if not self.kw: return body
        if f == 'AP': return (r['a'], r['p'], self._kwr(r))
        if f == 'PM' and self.flat: return list(r['pmf']) + [self._kwr(r)]       # PMF followed by the kwargs mapping, flat like (action, prob, kwargs)
        return (body, self._kwr(r))
    def predict(self, context, actions):
        batched = hasattr(context,'is_batch') or hasattr(actions,'is_batch')
        if not batched:
            r = self._row(actions); self.calls.append(('predict',[r])); return self._one(r)
        if self.mode in ('fallback','pfb'): raise TypeError("this learner cannot handle batches")
        rows = [self._row(a) for a in actions]
        self.calls.append(('predict', rows))
        if self.mode in ('row','lfb'):
            return [self._one(r) for r in rows]
        # column major
        f = self.fmt
        kwd = {'k': [r['tok'] for r in rows], 'j': [r['tok2'] for r in rows]}
        if f == 'AX':  body = [[r['a'] for r in rows]]
        if f == 'AP':  body = [tuple(r['a'] for r in rows), tuple(r['p'] for r in rows)]
        if f == 'PM':  body = [list(c) for c in zip(*[r['pmf'] for r in rows])]
        if f == 'AX*': return ({'action': [r['a'] for r in rows]}, kwd) if self.kw else {'action': [r['a'] for r in rows]}
        if f == 'AP*': return ({'action_prob': [(r['a'],r['p']) for r in rows]}, kwd) if self.kw else {'action_prob': [(r['a'],r['p']) for r in rows]}
        if f == 'PM*': return ({'pmf': [list(r['pmf']) for r in rows]}, kwd) if self.kw else {'pmf': [list(r['pmf']) for r in rows]}
        if f == 'AX' and not self.kw: return body[0]
        return body + ([kwd] if self.kw else [])
    def learn(self, context, action, reward, probability, **kw):
        if (hasattr(context,'is_batch') or hasattr(action,'is_batch')) and self.mode in ('fallback','lfb'):
            raise TypeError("this learner cannot handle batches")
        self.calls.append(('learn', context, action, reward, probability, kw))

def params(tier):
    ps = []
    for fmt in FORMATS:
        for kw in (False, True):
            for mode in ('none','row','col','fallback'):
                if mode == 'col' and fmt == 'AX' and not kw: continue        # a column of bare actions without kwargs is the row layout
                for n in (1,2,3):
                    if fmt == 'PM' and mode == 'col' and n == 1: continue   # a one-action PMF column is indistinguishable from a column of bare values
                    ps.append(dict(fmt=fmt, kw=kw, mode=mode, n=n))
    # learners with mixed batch capability: predict handles batches but learn does not ('lfb'), and the other way round ('pfb')
    for fmt in ('AP','PM'):
        for kw in (False, True):
            for mode in ('lfb','pfb'):
                ps.append(dict(fmt=fmt, kw=kw, mode=mode, n=3))
    return ps

def _classify(v):
    ch, info = v['choices'], v.get('info',{})
    case = info.get('case','')
    if ch.get('pmf0') == 1 and ('kind=ints012' in case or 'kind=ints12' in case) and 'mode=none' not in case and 'PMF draw' in v['what']:
        return "batched call, int actions containing 0/1, PMF written with ints: read as (action, probability)"
    return v['what'].split(' :: ')[0][:100]

@obligation('C15','formats', bounds={'quick':"6 formats x kwargs x {single, row-major, column-major, not-batch-capable, batch-capable in predict only / in learn only}; concrete binary64 weights whose sum is 1.0001 (inside the accepted PMF tolerance); 1..3 actions of 8 kinds (ints incl. 0/1, probability-looking floats, strings, one-hot tuples, lists, sparse dicts); batch size 1..3 (incl. the square case); two consecutive predict calls then learn; probabilities and PMF entries symbolic",
                                     'thorough':"same, batch sizes 1..3 for every action kind"},
            functions=FUNCS, params=params, classify=_classify, budget={'quick':80,'thorough':900})
def formats(sym, fmt, kw, mode, n):
    kinds = list(ACTION_KINDS)
    if mode != 'none' and fmt in ('AX','AP'): kinds.remove('sparse'); kinds.remove('sparse2')     # a bare dict per row can be read two ways: needs explicit hints (outside the claim)
    if fmt.startswith('PM'): kinds = ['ints012','ints12','floats','onehot','strs']
    kind = sym.choice('kind', kinds)
    B = 1 if mode == 'none' else sym.choice('B', [1,2,3] if not fmt.startswith('PM') else sorted({1,2,n}))
    if mode != 'none' and hasattr(sym,'branch') and sym.choices.get('B') is not None and False: pass
    actions = ACTION_KINDS[kind](n)
    seed = 7
    dbl = Double(sym, fmt, kw, mode)
    dbl.flat = (fmt == 'PM' and kw and mode in ('none','row') and n >= 2) and sym.flag('flat_pmf_kwargs')
    safe = SafeLearner(dbl, seed)
    ref_rng = CobaRandom(seed)
    sym.note(case=f"fmt={fmt} kw={kw} mode={mode} n={n} kind={kind} B={B}")
    for call in range(2 if not (fmt.startswith('PM') and B > 1) else 1):
        if mode == 'none':
            ctx, acts = None, list(actions)
        else:
            ctx = Batch.List([None]*B); acts = Batch.List([list(actions) for _ in range(B)])
        before = len(dbl.calls)
        A, P, K = safe.predict(ctx, acts)
        nrows = 1 if mode == 'none' else B
        pcalls = [c[1] for c in dbl.calls[before:] if c[0]=='predict']
        if mode in ('fallback','pfb'):
            said = [rows[0] for rows in pcalls if len(rows) == 1][:nrows]       # one call per row
        else:
            # the answer that counts is the first full-size one (the square-case probe of batch_order comes afterwards)
            said = next((rows for rows in pcalls if len(rows) == nrows), [])
        sym.check(len(said) == nrows, f"learner was asked for {len(said)} rows, batch has {nrows}")
        As = [A] if mode == 'none' else list(A)
        Ps = [P] if mode == 'none' else list(P)
        sym.check(len(As) == nrows and len(Ps) == nrows, f"predict returned {len(As)} actions / {len(Ps)} probabilities for {nrows} rows")
        for r,(row,a,p) in enumerate(zip(said,As,Ps)):
            offered = row['actions']
            sym.check(any(a is o or a == o for o in offered), f"row {r}: evaluator got {a!r} which is not an offered action")
            if fmt[:2] in ('AX','AP'):
                sym.check(a is row['a'] or (a == row['a'] and type(a) in (int,float)), f"row {r}: evaluator got action {a!r} but the learner named {row['a']!r}")
                if fmt[:2] == 'AP': sym.check(p == row['p'], f"row {r}: probability differs from the one the learner stated")
                else: sym.check(p is None, f"row {r}: a probability {p!r} was invented for a bare action")
            else:
                u = ref_rng.random()
                ok = False; lo = 0
                tot = 0
                for w in row['pmf']: tot = tot + w
                for j,o in enumerate(offered):
                    c = And(row['pmf'][j] > 0, u*tot >= lo, u*tot <= lo+row['pmf'][j])
                    if a is o or a == o: ok = Or(ok, And(c, p == row['pmf'][j]))
                    lo = lo + row['pmf'][j]
                sym.check(ok, f"row {r}: PMF draw is not the seeded inverse-CDF member reported with exactly its probability")
        # kwargs
        if kw:
            if mode == 'none': sym.check(K == {'k': said[0]['tok'], 'j': said[0]['tok2']} and K['k'] is said[0]['tok'] and K['j'] is said[0]['tok2'], "kwargs payload changed")
            else: sym.check(sorted(K.keys()) == ['j','k'] and len(K['k']) == nrows and len(K['j']) == nrows and all(x is r['tok'] for x,r in zip(K['k'],said)) and all(x is r['tok2'] for x,r in zip(K['j'],said)), "batched kwargs payload changed (every key must keep its own values, whatever the key order of a row)")
        else:
            sym.check(K == {}, f"kwargs {K!r} invented")
        # hand back to learn
        before = len(dbl.calls)
        rw = [0.5]*nrows
        if mode == 'none': safe.learn(ctx, A, 0.5, P, **K)
        else: safe.learn(ctx, A, Batch.List(rw), P, **K)
        learned = [c for c in dbl.calls[before:] if c[0]=='learn']
        if mode in ('none',):
            sym.check(len(learned) == 1 and learned[0][2] is A and learned[0][5] == K, "learn did not receive action/kwargs unchanged")
        elif mode == 'pfb' and len(learned) == 1:
            sym.check(list(learned[0][2]) == As and learned[0][5] == K, "batched learn did not receive actions/kwargs unchanged")
        elif mode in ('fallback','lfb','pfb'):
            sym.check(len(learned) == nrows, f"a learner whose learn cannot handle batches must be taught once per row, got {len(learned)} calls")
            for r,c in enumerate(learned):
                sym.check(c[2] is As[r] and (c[4] is Ps[r] or c[4] == Ps[r]), f"row {r}: per-row learn got a different action/probability")
                sym.check(c[5] == ({'k': said[r]['tok'], 'j': said[r]['tok2']} if kw else {}), f"row {r}: per-row learn kwargs")
        else:
            sym.check(len(learned) == 1 and list(learned[0][2]) == As and learned[0][5] == K, "batched learn did not receive actions/kwargs unchanged")

from coba.evaluators.sequential import SequentialCB

class _PmfLearner:
    def __init__(self, sym): self.sym = sym; self.n = 0; self.said = []
    def predict(self, context, actions):
        i = self.n; self.n += 1
        ks = [self.sym.int(f'e{i}_{j}', 0, 4) for j in range(len(actions))]
        tot = 0
        for k in ks: tot = tot + k
        self.sym.assume(tot == 4)
        pmf = [k/4 for k in ks]
        self.said.append(pmf)
        return pmf
    def learn(self, *a, **k): pass

class _Env:
    def __init__(self, I): self.I = I
    def read(self): return iter([dict(i) for i in self.I])

@obligation('C15','evaluator_seed', bounds="SequentialCB(seed in {0,1,3}) with a PMF-answering learner given raw or already wrapped in a SafeLearner (symbolic PMF, 2 interactions x 3 actions): the drawn actions are the inverse-CDF members for CobaRandom(seed)'s uniforms, whatever experiment_seed the context store holds",
            functions=FUNCS+['coba.evaluators.sequential:SequentialCB.evaluate'], params=lambda tier: [dict(seed=s) for s in (0,1,3)])
def evaluator_seed(sym, seed):
    store_seed = sym.choice('store', [None, 5, 9])
    old = dict(CobaContext.store)
    try:
        CobaContext.store.clear()
        if store_seed is not None: CobaContext.store['experiment_seed'] = store_seed
        acts = [10,11,12]
        env = _Env([{'context':None,'actions':list(acts),'rewards':[0,0,1]} for _ in range(2)])
        lrn = _PmfLearner(sym)
        wrap = sym.choice('given_as', ['raw','safe','safe_used'])       # the learner may arrive already wrapped in a SafeLearner (with its own seed, possibly already used)
        given = lrn if wrap == 'raw' else SafeLearner(lrn, 4)
        if wrap == 'safe_used': given._rng.random()
        rows = list(SequentialCB(seed=seed).evaluate(env, given))
    finally:
        CobaContext.store.clear(); CobaContext.store.update(old)
    ref = CobaRandom(seed)
    sym.check(len(rows) == 2, "row count")
    for r,pmf in zip(rows, lrn.said):
        u = ref.random(); lo = 0; ok = False
        for j,a in enumerate(acts):
            c = And(pmf[j] > 0, u >= lo, u <= lo+pmf[j])
            if r['action'] == a: ok = Or(ok, And(c, r['probability'] == pmf[j]))
            lo = lo + pmf[j]
        sym.check(ok, f"action drawn from the PMF is not the inverse-CDF member for the evaluator seed {seed} (store seed {store_seed})")

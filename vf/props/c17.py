"""C17 Indexed table queries return exactly what a full scan would."""
from vf.run import obligation
import symx
from symx import is_sym, unwrap

from coba.results.core import Table, Missing, View

EXPLANATION = ("Real Table.insert/index/where/groupby/copy executed on symbolic integer cells (z3 Int) with "
               "solver-decided orderings (the C sorted/bisect call __lt__/__eq__ on proxies -> forks); oracle is an "
               "explicit row-by-row list model.")
ASSUMPTIONS = ["cells are ints in [-2,2] or Missing; indexed columns hold mutually comparable values",
               "for Missing cells and ordering operators the oracle is the table's own scan path on an un-indexed copy "
               "(the property demands bisect==scan; it does not fix how Missing orders against numbers)",
               "'match' (regex, C module) is checked on a concrete string vocabulary only"]

FUNCS = ['coba.results.core:Table.__init__','coba.results.core:Table.insert','coba.results.core:Table.index',
         'coba.results.core:Table.where','coba.results.core:Table.groupby','coba.results.core:Table.copy',
         'coba.results.core:Table._calc_lohis','coba.results.core:Table._sub_lohis','coba.results.core:Table._compare',
         'coba.results.core:my_bisect_left','coba.results.core:my_bisect_right','coba.results.core:View',
         'coba.results.core:MissingType']

OPS = ['=','!=','<','<=','>','>=','in','!in']
INDEXES = [(),('a',),('b',),('a','b'),('b','a')]

def cells(sym, n, cols, missing=True, lo=-1, hi=1, tag=''):
    rows = []
    for i in range(n):
        r = []
        for c in cols:
            if missing and sym.flag(f'{tag}m_{c}{i}'):
                r.append(Missing)
            else:
                r.append(sym.int(f'{tag}{c}{i}', lo, hi))
        rows.append(r)
    return rows

def holds(c, op, arg):
    """Plain row-by-row predicate for non-missing cells."""
    if op == '=':  return c == arg
    if op == '!=': return c != arg
    if op == '<':  return c < arg
    if op == '<=': return c <= arg
    if op == '>':  return c > arg
    if op == '>=': return c >= arg
    if op == 'in':
        r = False
        for v in arg:
            if c == v: r = True
        return r
    if op == '!in':
        r = True
        for v in arg:
            if c == v: r = False
        return r
    raise ValueError(op)

def missing_semantics(op, arg):
    """What the un-indexed scan of the real code answers for a Missing cell (reference for Missing only)."""
    t = Table(columns=['a']).insert([[Missing]])
    return len(list(t.where(a={op:arg}))) == 1 if op != '!in' else None

def call_where(t, form, op, col, arg):
    if form == 'dict':  return t.where(**{col:{op:arg}})
    if form == 'pos':   return t.where(None, op, **{col:arg})
    if form == 'plain': return t.where(**{col:arg})     # implied '=' / 'in'
    raise ValueError(form)

def rows_of(t):
    return [list(r) for r in t]

def same_rows(sym, got, exp, what):
    sym.check(len(got) == len(exp), f"{what}: row count {len(got)} != {len(exp)}")
    for g,e in zip(got,exp):
        for x,y in zip(g,e):
            if x is Missing or y is Missing:
                sym.check(x is y, f"{what}: Missing cell mismatch")
            else:
                sym.check(x == y, f"{what}: cell mismatch")

def _classify(v):
    ch, what = v['choices'], v['what']
    n = ch.get('n')
    if 'uncaught' in what:
        exc = what.split(':')[0].replace('uncaught ','')
        return f"raises-{exc}-n{'0' if n==0 else '+'}-op{ch.get('op','')}-form{ch.get('form','')}"
    return what.split(':')[0]

def where_params(tier):
    # (rows, Missing cells allowed, max length of in-lists, operators, index lists)
    allops, allidx = list(range(len(OPS))), list(range(len(INDEXES)))
    if tier == 'quick':
        shapes = [(0,True,2,allops,allidx),(1,True,2,allops,allidx),(2,True,2,allops,allidx),
                  (3,False,0,[0,1,2,3,4,5],[1,3])]
    else:
        shapes = [(0,True,3,allops,allidx),(1,True,3,allops,allidx),(2,True,3,allops,allidx),(3,True,2,allops,allidx),
                  (4,False,2,allops,[1,3,4])]
    ps = []
    for n,miss,kmax,ops,idxs in shapes:
        for op in ops:
            for idx in idxs:
                ps.append(dict(n=n, op=OPS[op], idx=idx, miss=miss, kmax=kmax))
    return ps

@obligation('C17','where', bounds={'quick':"rows 0..2 with cells int[-1,1] or Missing (3 rows, no Missing, for the six scalar operators on index lists (a),(a,b)); cols {a,b,id}; arg int[-2,2]; in-lists len 0..2; every index column list; forms {dict,positional,plain}",
                                   'thorough':"rows 0..3 with Missing (in-lists len<=3, <=2 at 3 rows), 4 rows without Missing"},
            functions=FUNCS, params=where_params, classify=lambda v: _classify_where(v),
            budget={'quick':80,'thorough':900})
def where(sym, n, op, idx, miss=True, kmax=3):
    index = INDEXES[idx]
    sym.choices['n'] = n; sym.choices['op'] = op
    rows = cells(sym, n, ['a','b'], missing=miss)
    for i,r in enumerate(rows): r.append(i)           # concrete row id
    forms = ['dict','pos'] + (['plain'] if op in ('=','in') else [])
    form = sym.choice('form', forms)
    col = sym.choice('col', ['a','b'])
    if op in ('in','!in'):
        k = sym.size('k', 0, kmax)
        arg = [sym.int(f'arg{j}', -2, 2) for j in range(k)]
        if form == 'plain' and k == 0: sym.assume(False)
    else:
        arg = sym.int('arg', -2, 2)
    t = Table(columns=['a','b','id']).insert([list(r) for r in rows]) if n else Table(columns=['a','b','id'])
    if index: t.index(*index)
    table_rows = rows_of(t)
    got = rows_of(call_where(t, form, op, col, arg))
    ci = ['a','b'].index(col)
    exp = []
    for r in table_rows:
        c = r[ci]
        if c is Missing:
            # reference for Missing: the real scan path on an un-indexed one-row table
            keep = len(list(call_where(Table(columns=['a','b','id']).insert([list(r)]), form, op, col, arg))) == 1
        else:
            keep = holds(c, op, arg)
        if keep: exp.append(r)
    same_rows(sym, got, exp, f"where {op}")

def _classify_where(v):
    ch, what, m = v['choices'], v['what'], v['model']
    if 'uncaught' in what:
        exc = what.split(':')[0].replace('uncaught ','')
        return f"raises-{exc}:n={'0' if ch.get('n')==0 else '>0'},op={ch.get('op')},form={['dict','pos','plain'][ch.get('form',0)]},indexed={'yes' if ch.get('idx_used',1) else 'no'}"
    if ch.get('op') in ('in',) :
        k = ch.get('k',0)
        args = [m.get(f'arg{j}') for j in range(k)]
        if len(set(args)) < len(args): return "in-list-with-duplicates:"+what.split(':')[0]
    return f"op={ch.get('op')}:"+what.split(':')[0]

# ------------------------------------------------------------------------------------------
def index_params(tier):
    nmax = 3 if tier=='quick' else 4
    return [dict(n=n, idx=i) for n in range(0,nmax+1) for i in range(1,len(INDEXES))]

def key_lt(x, y):
    """x < y where Missing sorts after everything and equals itself."""
    if x is Missing: return False
    if y is Missing: return True
    return x < y

def key_eq(x, y):
    if x is Missing or y is Missing: return x is y
    return x == y

def stable_sort(rows, key_idx):
    out = []
    for r in rows:            # insertion sort, stable
        pos = len(out)
        while pos > 0:
            p = out[pos-1]
            less = False
            for k in key_idx:
                if key_lt(r[k], p[k]): less = True; break
                if not key_eq(r[k], p[k]): break
            if less: pos -= 1
            else: break
        out.insert(pos, r)
    return out

@obligation('C17','index', bounds={'quick':"rows 0..3; cells int[-1,1] or Missing; every index column list over {a,b}",
                                   'thorough':"rows 0..4"},
            functions=FUNCS, params=index_params)
def index(sym, n, idx):
    cols = INDEXES[idx]
    rows = cells(sym, n, ['a','b'])
    for i,r in enumerate(rows): r.append(i)
    t = Table(columns=['a','b','id']).insert([list(r) for r in rows]) if n else Table(columns=['a','b','id'])
    t.index(*cols)
    got = rows_of(t)
    exp = stable_sort(rows, [['a','b'].index(c) for c in cols])
    sym.check([g[2] for g in got] == [e[2] for e in exp], "index(): not the stable multi-key sort of the rows")
    same_rows(sym, got, exp, "index")
    sym.check(t.indexes == tuple(cols), "indexes property")

# ------------------------------------------------------------------------------------------
def groupby_params(tier):
    nmax = 3 if tier=='quick' else 4
    return [dict(n=n, idx=i) for n in range(0,nmax+1) for i in range(1,len(INDEXES))]

@obligation('C17','groupby', bounds={'quick':"rows 0..3; index lists over {a,b}; level 0..len(index)-1; select in {None,'count','id',['id','b']}",
                                     'thorough':"rows 0..4"},
            functions=FUNCS, params=groupby_params)
def groupby(sym, n, idx):
    cols = INDEXES[idx]
    rows = cells(sym, n, ['a','b'], missing=False)
    for i,r in enumerate(rows): r.append(i)
    t = Table(columns=['a','b','id']).insert([list(r) for r in rows]) if n else Table(columns=['a','b','id'])
    t.index(*cols)
    level = sym.choice('level', range(len(cols)))
    select = sym.choice('select', [None,'count','id',['id','b']])
    got = list(t.groupby(level, select))
    srt = stable_sort(rows, [['a','b'].index(c) for c in cols])
    ki = [['a','b'].index(c) for c in cols[:level]]
    groups = []
    if level == 0: groups.append(((),[]))   # empty prefix: one block holding every row (even none)
    for r in srt:
        key = tuple(r[k] for k in ki)
        if groups and all(key_eq(x,y) for x,y in zip(groups[-1][0],key)): groups[-1][1].append(r)
        else: groups.append((key,[r]))
    sym.check(len(got) == len(groups), "groupby: number of groups")
    for g,(key,members) in zip(got,groups):
        if select is None:
            sym.check(tuple(g) == key, "groupby: key")
        else:
            sym.check(tuple(g[0]) == key, "groupby: key")
            if select == 'count': sym.check(g[1] == len(members), "groupby: count")
            elif select == 'id':  sym.check(list(g[1]) == [m[2] for m in members], "groupby: members")
            else:
                sym.check(list(g[1][0]) == [m[2] for m in members], "groupby: members")
                sym.check(list(g[1][1]) == [m[1] for m in members], "groupby: members col b")

# ------------------------------------------------------------------------------------------
def seq_params(tier):
    if tier == 'quick':
        return [dict(n1=a,n2=b,idx=i) for a,b in [(0,1),(1,1),(0,2)] for i in (1,3)] + [dict(n1=2,n2=1,idx=1)]
    return [dict(n1=a,n2=b,idx=i) for a,b in [(0,1),(0,2),(1,1),(2,1),(1,2)] for i in (1,3,4)]

@obligation('C17','sequence', bounds={'quick':"insert(n1<=2 rows) ; index ; insert(n2<=2 rows, same or ragged columns; n1+n2<=2, 3 for index (a)) ; re-index {same,none,other} ; [copy] ; where {single | where-of-where | two keyword conditions (union)}; cells int[-1,1]",
                                      'thorough':"n1+n2<=3, index lists (a),(a,b),(b,a)"},
            functions=FUNCS, params=seq_params, classify=lambda v: _classify_seq(v),
            budget={'quick':80,'thorough':900})
def sequence(sym, n1, n2, idx):
    cols = INDEXES[idx]
    # structure choices first (so that the runner can split them over the pool)
    ragged  = sym.flag('ragged')
    reindex = sym.choice('reindex', ['same','none','other'])
    copy    = sym.flag('copy')
    op1     = sym.choice('op1', ['=','<=','in'])
    mode    = sym.choice('mode', ['single','chain','union'])
    op2     = sym.choice('op2', ['=','!=','<','>=']) if mode == 'chain' else None
    posform = sym.flag('posform') if mode == 'union' else False
    plain1  = sym.flag('plain_first') if (op1 == '=' and mode != 'union') else False        # where(a=v) instead of where(a={'=':v})
    sym.choices['n2'] = n2; sym.choices['n1'] = n1; sym.choices['idx'] = idx
    rows1 = cells(sym, n1, ['a','b'], missing=False, tag='p')
    rows2 = cells(sym, n2, ['a','b'], missing=False, tag='q')
    rid = 0
    for r in rows1+rows2: r.append(rid); rid += 1
    t = Table(columns=['a','b','id'])
    if n1: t.insert([list(r) for r in rows1])
    t.index(*cols)
    if ragged:  # dict rows that add column 'c'
        t.insert([dict(a=r[0],b=r[1],id=r[2],c=7) for r in rows2])
    else:
        t.insert([list(r) for r in rows2])
    if reindex == 'same': t.index(*cols)
    elif reindex == 'other': t.index(*(('b',) if cols[0]=='a' else ('a',)))
    if copy: t = t.copy()
    allrows = rows1+rows2
    table_rows = [list(r)[:3] for r in zip(t['a'],t['b'],t['id'])]
    # multiset preserved by the whole history
    sym.check(sorted(r[2] for r in table_rows) == list(range(len(allrows))), "rows added/dropped by insert/index")
    for r in table_rows:
        o = allrows[r[2]]
        sym.check(r[0] == o[0], "cell altered"); sym.check(r[1] == o[1], "cell altered")
    if ragged:
        cc = list(t['c'])
        for r,c in zip(table_rows,cc):
            if r[2] < n1: sym.check(c is Missing, "ragged insert: old rows must be Missing in new column")
            else: sym.check(c == 7, "ragged insert: new column value")
    a1 = sym.int('x1',-2,2)
    arg1 = [a1, sym.int('x1b',-2,2)] if op1=='in' else a1
    first = (lambda: t.where(a=arg1)) if plain1 else (lambda: t.where(a={op1:arg1}))
    if mode == 'single':
        got = first()
        exp = [r for r in table_rows if holds(r[0],op1,arg1)]
    elif mode == 'chain':
        a2 = sym.int('x2',-2,2)
        mid = first()
        sym.check(len(mid) == len([r for r in table_rows if holds(r[0],op1,arg1)]), "len() of the first where result")
        got = mid.where(b={op2:a2})
        exp = [r for r in table_rows if holds(r[0],op1,arg1) and holds(r[1],op2,a2)]
    else:
        a2 = sym.int('x2',-2,2)
        opu = op1 if (posform and op1!='in') else '='
        got = t.where(None, opu, a=a1, b=a2) if posform else t.where(a=a1, b=a2)
        exp = [r for r in table_rows if holds(r[0],opu,a1) or holds(r[1],opu,a2)]
    gotrows = [list(r)[:3] for r in zip(got['a'],got['b'],got['id'])]
    sym.check([g[2] for g in gotrows] == [e[2] for e in exp], f"where after history ({mode})")
    sym.check(len(got) == len(exp), f"len() of the where result ({mode})")

def _classify_seq(v):
    ch, what, m = v['choices'], v['what'], v['model']
    rx = ['same','none','other'][ch.get('reindex',0)]
    n1, n2, cols = ch.get('n1',0), ch.get('n2',0), INDEXES[ch.get('idx',1)]
    ki = [['a','b'].index(c) for c in cols]
    r1 = sorted([[m.get(f'pa{i}',0), m.get(f'pb{i}',0)] for i in range(n1)], key=lambda r: [r[k] for k in ki])
    r2 = [[m.get(f'qa{i}',0), m.get(f'qb{i}',0)] for i in range(n2)]
    keys = [[r[k] for k in ki] for r in r1+r2]
    out_of_order = any(x > y for x,y in zip(keys, keys[1:]))
    stale = n2 > 0 and rx in ('none','same') and out_of_order
    if stale and ('where after history' in what or 'uncaught' in what or 'len() of' in what):      # a wrong len() is the same wrong where() result
        return "stale-index:rows inserted into an indexed table, where() bisects unsorted data"
    if 'uncaught' in what:
        return f"raises-{what.split(':')[0].replace('uncaught ','')}"
    return what

@obligation('C17','union_order', bounds="10-row table with concrete distinct cells (a=i, b=3i mod 10), index lists {(),(a),(b)}; symbolic arguments in [-1,10]; two keyword conditions / 'in' lists; result must be the union in table order",
            functions=FUNCS, params=lambda tier: [dict(idx=i, form=f) for i in (0,1,2) for f in ('eq2','in_eq','pos')])
def union_order(sym, idx, form):
    N = 10
    rows = [[i, (3*i) % N, i] for i in range(N)]
    t = Table(columns=['a','b','id']).insert([list(r) for r in rows])
    if INDEXES[idx]: t.index(*INDEXES[idx])
    table_rows = rows_of(t)
    x1 = sym.int('x1',-1,N); x2 = sym.int('x2',-1,N)
    if form == 'eq2':
        got = t.where(a=x1, b=x2); keep = lambda r: (r[0]==x1) | (r[1]==x2)
    elif form == 'in_eq':
        x3 = sym.int('x3',N-2,N-1)
        got = t.where(a=[x1,x3], b=x2); keep = lambda r: (r[0]==x1) | (r[0]==x3) | (r[1]==x2)
    else:
        got = t.where(None, '<=', a=x1, b=x2); keep = lambda r: (r[0]<=x1) | (r[1]<=x2)
    exp = [r[2] for r in table_rows if keep(r)]
    sym.check([r[2] for r in rows_of(got)] == exp, f"union of keyword conditions not in table order / wrong rows ({form})")

# ---------------------------------------------------------------------------------------------------
@obligation('C17','reindex', bounds={'quick':"insert(3 rows quick / 2..4 thorough from a menu of 4 concrete tables) ; index(I1) ; [a query] ; index(I2) with I1 != I2 (5 ordered pairs of {(a),(b),(a,b),(b,a)}; all 12 in the thorough tier) and NO insert in between ; where on a or b with {=,<=,>,in,!=} and a symbolic argument in [-2,7], and groupby on the first level: equal to a scan / to the distinct values",
                                     'thorough':"n<=4"},
            functions=FUNCS, params=lambda tier: [dict(n=n, i1=i, i2=j) for n in ((3,) if tier == 'quick' else (2,3,4)) for i,j in ([(3,4),(4,3),(1,3),(3,2),(2,1)] if tier == 'quick' else [(i,j) for i in (1,2,3,4) for j in (1,2,3,4) if i != j])] + [dict(n=4, i1=0, i2=0, cols1=c1, cols2=c2) for c1,c2 in ((('a','b'),('id','b')), (('b','a'),('id','a')), (('id','b'),('a','b')))],      # a later level keeps its position while an earlier one changes
            budget={'quick':80,'thorough':900})
def reindex(sym, n, i1, i2, cols1=None, cols2=None):
    I1 = tuple(cols1) if cols1 else INDEXES[i1]; I2 = tuple(cols2) if cols2 else INDEXES[i2]
    MENU = [[(1,5),(1,6),(2,4),(2,5)], [(0,1),(1,0),(0,0),(1,1)], [(2,1),(1,2),(2,2),(1,1)], [(-1,0),(0,-1),(1,1),(0,0)]]
    rows = [list(r) for r in sym.choice('table', MENU)[:n]]
    for k,r in enumerate(rows): r.append(k)
    t = Table(columns=['a','b','id']).insert([list(r) for r in rows])
    t.index(*I1)
    if sym.flag('query_between'):
        list(t.where(a=0)['id'])
        if len(I1) == 2: list(t.groupby(1, 'count'))
    t.index(*I2)
    trows = [list(r) for r in zip(t['a'],t['b'],t['id'])]
    sym.check(sorted(r[2] for r in trows) == list(range(n)), "re-index dropped or duplicated rows")
    col = sym.choice('col', ['a','b']); ci = 0 if col == 'a' else 1
    op = sym.choice('op', ['=','<=','>','in','!='])
    x = sym.int('x', -2, 7)
    arg = [x, sym.int('x2', -2, 7)] if op == 'in' else x
    got = t.where(**{col: {op: arg}})
    gotids = list(got['id'])
    exp = [r[2] for r in trows if holds(r[ci], op, arg)]
    sym.check(gotids == exp, f"where {col} {op} after index{I1} ; index{I2}: rows {gotids}, a scan gives {exp}")
    if len(I2) == 2:
        li = {'a':0,'b':1,'id':2}[I2[0]]
        groups = list(t.groupby(1, 'count'))
        counts = {}
        for r in trows: counts[r[li]] = counts.get(r[li], 0) + 1
        sym.check(sorted((tuple(g[0])[0], g[1]) for g in groups) == sorted(counts.items()), f"groupby level 1 after re-index: {groups} but the column has {counts}")


@obligation('C17','match_concrete', bounds="NOT symbolic (regular expressions run in C): a 5-row table with a string column; patterns {'cb','^cb','b$','x','v. --'} as {'match': p} and in the positional form, with and without an index on the column, and on a where-of-where view: the rows selected are those in which the pattern is found anywhere in the value (re.search)",
            functions=FUNCS)
def match_concrete(sym):
    import re
    vals = ['ucb','vw --cb 2','cb','abc','xyz']
    t = Table(columns=['s','id']).insert([[v,i] for i,v in enumerate(vals)])
    if sym.flag('indexed'): t.index('s')
    pat = sym.choice('pattern', ['cb','^cb','b$','x','v. --'])
    form = sym.choice('form', ['dict','positional','chained'])
    if form == 'dict': got = t.where(s={'match': pat})
    elif form == 'positional': got = t.where(None, 'match', s=pat)
    else: got = t.where(id={'>=':0}).where(s={'match': pat})
    exp = sorted(i for i,v in enumerate(vals) if re.search(pat, v))
    sym.check(sorted(got['id']) == exp, f"where s match {pat!r} ({form}) selects ids {sorted(got['id'])}, the pattern is found in {exp}")

@obligation('C17','mixed_forms', bounds="two keyword conditions in one where(), one given with an explicit operator {op: x} (op in {<,<=,>,>=,!=,=}) and the other as a plain value, in both keyword orders, on a 4-row menu table with and without an index on either column; symbolic arguments in [-2,7]: the result is the union (in table order) of 'a op x' and 'b == y'",
            functions=FUNCS, params=lambda tier: [dict(idx=i) for i in (0,1,2,3)])
def mixed_forms(sym, idx):
    MENU = [[(1,5),(1,6),(2,4),(2,5)], [(0,1),(1,0),(0,0),(1,1)], [(-1,0),(0,-1),(1,1),(0,0)]]
    rows = [list(r)+[k] for k,r in enumerate(sym.choice('table', MENU))]
    t = Table(columns=['a','b','id']).insert([list(r) for r in rows])
    if INDEXES[idx]: t.index(*INDEXES[idx])
    trows = [list(r) for r in zip(t['a'],t['b'],t['id'])]
    op = sym.choice('op', ['<','<=','>','>=','!=','='])
    x = sym.int('x', -2, 7); y = sym.int('y', -2, 7)
    if sym.flag('dict_first'): got = t.where(a={op: x}, b=y)
    else: got = t.where(b=y, a={op: x})
    exp = [r[2] for r in trows if holds(r[0], op, x) or r[1] == y]
    sym.check(list(got['id']) == exp, f"where(a={{'{op}': x}}, b=y) selects {list(got['id'])}, the union of 'a {op} x' and 'b == y' is {exp}")


# ---------------------------------------------------------------------------------------------------
@obligation('C17','chained_views', bounds="4 or 5 rows (a symbolic int[-1,1], b symbolic int[0,1], concrete id), index none / (a) / (a,b); a first where that excludes ONE row by its id (the result is a view with a hole) followed by a second where on a ({'=','<=','>'}: bisect inside the view) or on the un-indexed b / id (scan inside the view), and groupby(select) on the view: rows and len() equal the row-by-row model",
            functions=FUNCS, params=lambda tier: [dict(n=n, idx=i, hole=h) for n in ((4,) if tier == 'quick' else (4,5)) for i in (0,1,3) for h in range(n)], budget={'quick':80,'thorough':900})
def chained_views(sym, n, idx, hole):
    rows = [[sym.int(f'a{i}',-1,1), sym.int(f'b{i}',0,1), i] for i in range(n)]
    t = Table(columns=['a','b','id']).insert([list(r) for r in rows])
    if INDEXES[idx]: t.index(*INDEXES[idx])
    table_rows = [list(r) for r in zip(t['a'],t['b'],t['id'])]
    col2 = sym.choice('col2', ['a','b','id'])
    op2 = sym.choice('op2', ['=','<=','>'])
    x2 = sym.int('x2', -1, 1) if col2 != 'id' else sym.int('x2', 0, n-1)
    view = t.where(id={'!=':hole})
    kept = [r for r in table_rows if r[2] != hole]
    sym.check(len(view) == len(kept), "len() of a view with a hole")
    got = view.where(**{col2:{op2:x2}})
    ci = ['a','b','id'].index(col2)
    exp = [r for r in kept if holds(r[ci], op2, x2)]
    gotrows = [list(r) for r in zip(got['a'],got['b'],got['id'])]
    sym.check([g[2] for g in gotrows] == [e[2] for e in exp], f"where on a view with a hole ({col2} {op2})")
    sym.check(len(got) == len(exp), "len() of where on a view")
    for g,e in zip(gotrows,exp):
        sym.check(g[0] == e[0], "cell mismatch in a view"); sym.check(g[1] == e[1], "cell mismatch in a view")
    if INDEXES[idx]:
        grp = list(view.groupby(0, 'id'))
        ids = [i for _,v in grp for i in v]
        sym.check(ids == [r[2] for r in kept], f"groupby(select) on a view with a hole returns ids {ids}")

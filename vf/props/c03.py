"""C03 Each evaluation is isolated from every other evaluation."""
import pickle
from vf.run import obligation
from symx import unwrap
from vf import exp
from coba.context import CobaContext, IndentLogger, NullLogger, NullCacher
from coba.pipes import ListSink
from coba.environments import Environments
from coba.experiments import Experiment
from coba.evaluators import SequentialCB
from coba.learners import BanditEpsilonLearner, BanditUCBLearner

EXPLANATION = ("Experiments whose triple list (length <=3, component indices over 2 environments x 2 learner objects x 2 evaluators chosen as z3 integers, so every "
               "sharing pattern and order is reached), learner kind, fault position and execution mode (in-process, or emulated workers with a solver-chosen "
               "maxtasksperchunk over chunked environments) are solver-enumerated; every triple's rows are compared with the rows of the same triple run alone "
               "on a fresh learner, failing triples must contribute no rows and one logged exception, shared user learner objects must stay untouched.")
ASSUMPTIONS = ["the reference rows of a triple run alone come from a fresh interpreter per triple (cached for the duration of the check)", "finite enumeration of sharing patterns / fault positions through z3 integers; no value reasoning",
               "faults: exception in environment params, environment read after j interactions, learner predict/learn at call j (the learner publishes learning_info before raising), evaluator; one faulty component per experiment",
               "worker processes emulated as in C01 (pickled chunks, reset context); real OS processes outside"]
FUNCS = ['coba.experiments.process:MakeTasks.read','coba.experiments.process:ProcessTasks.filter','coba.experiments.process:ChunkTasks._chunks','coba.experiments.core:Experiment.run',
         'coba.evaluators.sequential:SequentialCB._results','coba.safety:SafeLearner.learn','coba.results.core:TransactionResult.filter']

class Boom(Exception): pass

# ---- references from a pristine interpreter ----------------------------------------------------------
# The rows a triple produces "when run alone" are computed in a FRESH interpreter (one per triple, cached on disk for the
# duration of the check): a reference computed in the harness process would share any process-wide state (class-level
# caches, module globals) with the run under test and could not expose an evaluation that depends on earlier ones.
import os, sys, atexit, hashlib, shutil, subprocess, tempfile
if not os.environ.get('C03_REFDIR'):
    os.environ['C03_REFDIR'] = tempfile.mkdtemp(prefix='c03ref_')
    _owner = os.getpid()
    atexit.register(lambda: os.getpid() == _owner and shutil.rmtree(os.environ['C03_REFDIR'], ignore_errors=True))

def pristine(fn, *args):
    d = os.environ['C03_REFDIR']; os.makedirs(d, exist_ok=True)
    path = os.path.join(d, hashlib.sha1(repr((fn,args)).encode()).hexdigest()+'.pkl')
    if not os.path.exists(path):
        code = "import sys,pickle,warnings; warnings.simplefilter('ignore'); from vf.props import c03; sys.stdout.buffer.write(b'REF'+pickle.dumps(getattr(c03,sys.argv[1])(*eval(sys.argv[2]))))"
        out = subprocess.run([sys.executable,'-W','ignore','-c',code,fn,repr(args)], capture_output=True, timeout=120)
        i = out.stdout.find(b'REF')
        if out.returncode != 0 or i < 0: raise RuntimeError(f"reference interpreter failed: {out.stderr[-400:]!r}")
        tmp = path+f'.{os.getpid()}'
        open(tmp,'wb').write(out.stdout[i+3:]); os.replace(tmp, path)
    return pickle.loads(open(path,'rb').read())

def _alone1(e, l, v, lk, fault_i):
    triples, _ = build([(e,l,v)], lk, FAULTS[fault_i], False)
    res, log = run_inprocess(triples)
    return rows_by_triple(res).get((0,0,0))

def _alone2(e, l, v):
    triples, _ = build2([(e,l,v)])
    res, log = run_inprocess(triples)
    return rows_by_triple(res).get((0,0,0))

class FEnv:
    def __init__(self, name, fault=None): self.name, self.fault = name, fault
    @property
    def params(self):
        if self.fault == 'params': raise Boom(f"params of {self.name}")
        return {'name': self.name}
    def read(self):
        for i in range(3):
            if self.fault == ('read', i): raise Boom(f"read of {self.name} at {i}")
            yield {'context': (i, len(self.name)), 'actions': [0,1,2], 'rewards': [((i+a+len(self.name)) % 3)/2 for a in range(3)]}

class FLearner:
    """stateful counting learner; publishes learning_info; may raise at the j-th predict/learn"""
    def __init__(self, tag, fault=None): self.tag, self.fault = tag, fault; self.n = 0; self.learned = 0; self.fin = 0
    @property
    def params(self): return {'family': 'flearner', 'tag': self.tag}
    def predict(self, context, actions):
        if self.fault == ('predict', self.n): raise Boom(f"predict {self.n} of {self.tag}")
        self.n += 1
        return actions[(self.n + 2*self.learned + self.fin) % len(actions)], 1/len(actions)
    def finish(self):
        self.fin += 1                      # a finished learner answers differently: finishing must happen to the private copy only
    def learn(self, context, action, reward, probability):
        CobaContext.learning_info['learned_before'] = self.learned
        if self.fault == ('learn', self.learned): raise Boom(f"learn {self.learned} of {self.tag}")
        self.learned += 1

class FEval:
    def __init__(self, fault=None): self.fault = fault
    @property
    def params(self): return {'eval': 'feval'}
    def evaluate(self, env, lrn):
        rows = []
        for i,it in enumerate(env.read()):
            a, p = lrn.predict(it['context'], it['actions'])
            lrn.learn(it['context'], a, it['rewards'][it['actions'].index(a)], p)
            rows.append({'a': a, 'prior': getattr(lrn,'learned',0)})
        if self.fault == 'evaluate': raise Boom("evaluator")
        return rows

FAULTS = [None, ('env','params'), ('env',('read',0)), ('env',('read',2)), ('lrn',('predict',0)), ('lrn',('predict',2)), ('lrn',('learn',1)), ('val','evaluate')]

def build(triples_idx, lk, fault, chunked):
    envs = [FEnv('aa', fault[1] if fault and fault[0]=='env' else None), FEnv('bbb')]
    if chunked: envs = list(Environments(envs).chunk()._envs)
    if lk == 'counting': lrns = [FLearner('L0', fault[1] if fault and fault[0]=='lrn' else None), FLearner('L1')]
    elif lk == 'ucb': lrns = [FLearner('L0', fault[1] if fault and fault[0]=='lrn' else None), BanditUCBLearner(seed=2)]
    else: lrns = [FLearner('L0', fault[1] if fault and fault[0]=='lrn' else None), BanditEpsilonLearner(.1)]
    vals = [FEval(fault[1] if fault and fault[0]=='val' else None), SequentialCB()]
    return [(envs[e], lrns[l], vals[v]) for e,l,v in triples_idx], lrns

class RecLogger(IndentLogger):
    pass

def run_inprocess(triples):
    exp.reset_context()
    sink = ListSink()
    CobaContext._logger = IndentLogger(sink)
    res = Experiment(triples).run(quiet=True, processes=1, maxchunksperchild=0, maxtasksperchunk=0)
    excs = [str(x) for x in sink.items if 'Boom' in str(x) or 'Unexpected exception' in str(x) or 'Traceback' in str(x)]
    exp.reset_context()
    return res, sink.items

def run_emulated(triples, mt):
    from coba.experiments.process import MakeTasks, ChunkTasks, ProcessTasks
    from coba.multiprocessing import CobaMultiprocessor
    from coba.results import TransactionEncode, TransactionDecode, TransactionResult
    from coba.pipes import Pipes, ListSource, Insert
    exp.reset_context()
    chunks = list(ChunkTasks(mt).filter(list(MakeTasks(triples).read())))
    logsink = ListSink()
    from coba.context import DecoratedLogger, ExceptLog, NameLog, StampLog
    pf = CobaMultiprocessor.ProcessFilter(ProcessTasks(), DecoratedLogger([ExceptLog()], IndentLogger(ListSink()), [NameLog(),StampLog()]), NullCacher(), {'experiment_seed':1}, logsink)
    flat = []
    for chunk in chunks:
        pf2, chunk2 = pickle.loads(pickle.dumps((pf, chunk)))
        pf2._logger_sink = logsink
        exp.reset_context()
        flat += pickle.loads(pickle.dumps(list(pf2.filter(chunk2))))
    exp.reset_context()
    sink = ListSink(foreach=True)
    Pipes.join(ListSource(flat), Insert([["T0",{'n_learners':1,'n_environments':1,'description':None,'seed':1}]]), TransactionEncode(None), sink).run()
    return Pipes.join(ListSource(sink.items), TransactionDecode(), TransactionResult()).read(), logsink.items

def rows_by_triple(res):
    t = res.interactions
    cols = [c for c in t.columns if 'time' not in str(c)]
    out = {}
    for r in zip(*[t[c] for c in cols]):
        d = dict(zip(cols,r)); key = (d.pop('environment_id'), d.pop('learner_id'), d.pop('evaluator_id'))
        out.setdefault(key, []).append({k:exp._norm(v) for k,v in d.items() if exp._norm(v) != 'Missing'})
    return out

def _classify(v): return v['what'].split(':')[0][:110]

@obligation('C03','isolation', bounds="triple lists of length 1..3 over 2 environments x 2 learner objects x 2 evaluators (indices as z3 ints: every sharing pattern and order); learner kinds {counting double with a finish() that changes its answers, BanditEpsilon, BanditUCB}; 8 fault positions; modes {in-process, emulated workers with maxtasksperchunk in {0,1,2} on chunked or plain environments}",
            functions=FUNCS, classify=_classify, budget={'quick':80,'thorough':900},
            params=lambda tier: [dict(n=n, fault=f, mode=m) for n in ((1,2,3) if tier == 'quick' else (1,2,3,4)) for f in range(len(FAULTS)) for m in ('inproc','emu_plain','emu_chunked')])
def isolation(sym, n, fault, mode):
    fault_i = fault
    fault = FAULTS[fault]
    lk = sym.choice('lk', ['counting','bandit','ucb'])
    mt = sym.choice('mt', [0,1,2]) if mode != 'inproc' else 0
    idx = []
    for i in range(n):
        idx.append((unwrap(sym.int(f'e{i}',0,1)), unwrap(sym.int(f'l{i}',0,1)), unwrap(sym.int(f'v{i}',0,1))))
    sym.assume(len(set(idx)) == len(idx))           # a triple listed twice is the same evaluation
    chunked = mode == 'emu_chunked'
    triples, lrns = build(idx, lk, fault, chunked)
    if mode == 'inproc': res, log = run_inprocess(triples)
    else: res, log = run_emulated(triples, mt)
    got = rows_by_triple(res)
    # ids by order of first appearance
    eids, lids, vids = {}, {}, {}
    for e,l,v in idx:
        eids.setdefault(e, len(eids)); lids.setdefault(l, len(lids)); vids.setdefault(v, len(vids))
    n_fail = 0
    for (e,l,v) in idx:
        alone = pristine('_alone1', e, l, v, lk, fault_i)
        key = (eids[e], lids[l], vids[v])
        if alone is None:
            n_fail += 1
            sym.check(key not in got, f"failing triple {(e,l,v)} still contributed rows")
        else:
            sym.check(key in got, f"rows of the healthy triple {(e,l,v)} are missing (fault={fault}, list={idx}, mode={mode}, mt={mt})")
            if key in got: sym.check(got[key] == alone, f"rows of triple {(e,l,v)} differ from the same triple run alone on a fresh learner: {got[key]} != {alone} (list={idx}, fault={fault}, mode={mode})")
    n_logged = sum(1 for x in log if isinstance(x, BaseException) or 'Unexpected exception' in str(x))
    if fault and fault[0] == 'env' and fault[1] == 'params': pass        # parameter tasks fail separately from evaluations
    else: sym.check(n_logged >= n_fail and (n_fail > 0 or n_logged == 0), f"{n_fail} failing triples but {n_logged} exceptions reported in the log")
    if mode == 'inproc':
        for li,lrn in enumerate(lrns):
            if sum(1 for t in idx if t[1] == li) > 1 and hasattr(lrn,'learned'):
                sym.check(lrn.n == 0 and lrn.learned == 0 and getattr(lrn,'fin',0) == 0, f"the user's learner object L{li}, listed in several triples, was trained or finished in place")

# ---------------------------------------------------------------------------------------------------
class NoBatchLearner:
    """stateful learner that cannot handle batches (hash of a batch raises): SafeLearner has to fall back to row-by-row calls"""
    def __init__(self, tag): self.tag = tag; self.n = 0; self.learned = 0
    @property
    def params(self): return {'family': 'nobatch', 'tag': self.tag}
    def predict(self, context, actions):
        k = hash(context) % 7
        self.n += 1
        return actions[(k + self.n + 2*self.learned) % len(actions)], 1/len(actions)
    def learn(self, context, action, reward, probability):
        hash(context)
        self.learned += 1

def build2(idx):
    from coba.learners import RandomLearner
    from coba.evaluators import RejectionCB
    envs = [FEnv('aa'), Environments(FEnv('bbb')).batch(2)._envs[0], Environments(exp.ListEnv('cc', n=8)).logged(RandomLearner(seed=2))._envs[0], Environments(exp.ListEnv('dddd', n=8)).logged(RandomLearner(seed=5))._envs[0]]
    lrns = [NoBatchLearner('N0'), BanditEpsilonLearner(.1, seed=1), NoBatchLearner('N1')]
    vals = [SequentialCB(), RejectionCB(seed=3)]
    return [(envs[e], lrns[l], vals[v]) for e,l,v in idx], lrns

@obligation('C03','shared_components', bounds={'quick':"ordered triple lists of length 2 over 4 environments (plain, batched, two logged) x 3 learners (two that cannot handle batches, BanditEpsilon) x 2 evaluators (SequentialCB, RejectionCB with an explicit seed), indices as z3 ints; modes {in-process, emulated workers with maxtasksperchunk 0}: every triple's rows equal those of the same triple run alone (an unsupported combination must fail alone as well)",
                                               'thorough':"length 2 and 3; maxtasksperchunk in {0,1,2}"},
            functions=FUNCS+['coba.safety:SafeLearner.predict','coba.evaluators.sequential:RejectionCB.evaluate'], classify=_classify, budget={'quick':100,'thorough':1500},
            params=lambda tier: [dict(n=n, mode=m, e0=e0) for n in ((2,) if tier == 'quick' else (2,3)) for m in ('inproc','emu') for e0 in range(4)])
def shared_components(sym, n, mode, e0):
    tier = __import__('os').environ.get('VERIF_TIER_EFFECTIVE','quick')
    mt = 0 if (mode == 'inproc' or tier == 'quick') else sym.choice('mt', [0,1,2])
    idx = [(e0, unwrap(sym.int('l0',0,2)), unwrap(sym.int('v0',0,1)))]
    for i in range(1,n):
        idx.append((unwrap(sym.int(f'e{i}',0,3)), unwrap(sym.int(f'l{i}',0,2)), unwrap(sym.int(f'v{i}',0,1))))
    sym.assume(len(set(idx)) == len(idx))
    if n == 3: sym.assume(len({t[0] for t in idx}) < 3 or len({t[2] for t in idx}) < 2)      # only lists that share at least an environment or an evaluator object
    triples, lrns = build2(idx)
    if mode == 'inproc': res, log = run_inprocess(triples)
    else: res, log = run_emulated(triples, mt)
    got = rows_by_triple(res)
    eids, lids, vids = {}, {}, {}
    for e,l,v in idx:
        eids.setdefault(e, len(eids)); lids.setdefault(l, len(lids)); vids.setdefault(v, len(vids))
    for (e,l,v) in idx:
        alone = pristine('_alone2', e, l, v)
        key = (eids[e], lids[l], vids[v])
        if alone is None:
            sym.check(key not in got, f"triple {(e,l,v)} fails when run alone but contributed rows in the list {idx}")
        else:
            sym.check(key in got, f"rows of the healthy triple {(e,l,v)} are missing (list={idx}, mode={mode}, mt={mt})")
            if key in got: sym.check(got[key] == alone, f"rows of triple {(e,l,v)} differ from the same triple run alone on fresh components: {got[key][:3]} != {alone[:3]} (list={idx}, mode={mode})")

"""C07 The result log faithfully records what evaluators produced."""
import os, tempfile, shutil, math, json
import z3
from vf.run import obligation
from symx import unwrap, SymFP, SymBool, is_sym
from vf import exp
from coba.experiments import Experiment
from coba.environments import Environments
from coba.results import Result
from coba.primitives import BinaryReward
import coba.utilities as cu

EXPLANATION = ("Shape part: evaluator / learner / environment doubles emit rows and params whose key sets (ragged) and value kinds per cell are solver-enumerated from a "
               "menu (ints, floats, NaN, +-inf, None, strings with unicode/newline/quote, lists, tuples, nested lists, dicts, non-string keys, reward objects); the "
               "interactions and parameter tables of the real Experiment.run are compared with an independently written normalisation of what was yielded, and the "
               "Result with a file, without a file and Result.from_file (plain and .gz) must be identical. Value part: minimize() runs on a symbolic binary64 and the "
               "rounding contract (|minimize(x)-x| <= 0.5e-5, integral floats become the equal int, idempotence) is decided bit-exactly in QF_FP by z3 || cvc5.")
ASSUMPTIONS = ["cell VALUES of the shape part are concrete representatives (they pass through the C json encoder); only the shape (which keys, which kinds, where) is quantified",
               "reward objects are only required to be recorded consistently (file / no file / from_file agree); their read-back form is not fixed by the statement",
               "minimize lemmas: |x| <= 2^20, math.isfinite and int() in coba.utilities are proxy-aware stand-ins, builtins.round on the proxy is IEEE roundToIntegral ties-to-even (CPython's float.__round__); time cap, unknown = inconclusive",
               "numpy/torch values outside the claim"]
FUNCS = ['coba.results.core:TransactionEncode.filter','coba.results.core:TransactionDecode.filter','coba.results.core:TransactionResult.filter','coba.utilities:minimize',
         'coba.json:dumps','coba.experiments.core:Experiment.run','coba.results.core:Table.insert','coba.pipes.sinks:DiskSink.write','coba.pipes.sources:DiskSource.read']

VALUES = {
    'int': 3, 'negint': -2, 'float': 0.123456789, 'negfloat': -0.1234567, 'intfloat': 2.0, 'big': 123456.7890123, 'nan': float('nan'), 'inf': float('inf'), 'ninf': -float('inf'),
    'none': None, 'str': 'a"b\nc,é\\', 'empty': '', 'list': [1, 2.5, 'x'], 'tuple': (1, 0.000004, None), 'nested': [[1.23456789, [2]], (3,)], 'dict': {'k': 1.999999, 'j': [1]},
    'emptylist': [], 'bool': True, 'reward': BinaryReward(1), 'mixeddict': {0: 1, 'other': [2], 1: 0.5},
    'surrogate': 'x\udce9y\u6f22\u2028',      # a lone surrogate (os.fsdecode of a non-UTF-8 name) next to ordinary non-ASCII text
}
KINDS = list(VALUES)

def norm_value(v, top=True):
    """the documented normalisation, written independently"""
    if isinstance(v, bool): return v
    if isinstance(v, float):
        if v != v: return 'nan'
        if v in (math.inf, -math.inf): return v
        if v.is_integer(): return int(v)
        return round(v*100000)/100000
    if isinstance(v, (list,tuple)):
        inner = [norm_value(x, False) for x in v]
        return tuple(inner) if top else inner
    if isinstance(v, dict): return {str(k): norm_value(x, False) for k,x in v.items()}
    return v

def canon(v):
    if isinstance(v, float) and v != v: return 'nan'
    if v.__class__.__name__ == 'MissingType': return None
    if isinstance(v, tuple): return tuple(canon(x) for x in v)
    if isinstance(v, list): return [canon(x) for x in v]
    if isinstance(v, dict): return {k: canon(x) for k,x in v.items()}
    return v

class ShapeEval:
    def __init__(self, rows, params): self.rows, self._params = rows, params
    @property
    def params(self): return self._params
    def evaluate(self, env, lrn):
        for r in self.rows: yield dict(r)

class PEnv:
    def __init__(self, params): self._p = params
    @property
    def params(self): return self._p
    def read(self): return iter([{'context':None,'actions':[0,1],'rewards':[0,1]}])

class PLearner:
    def __init__(self, params): self._p = params
    @property
    def params(self): return self._p
    def predict(self, c, a): return a[0], 1
    def learn(self, *a, **k): pass

def _classify(v): return v['what'].split(':')[0][:110]

def shape_params(tier):
    return [dict(k1=a, k2=b) for a in range(len(KINDS)) for b in (range(0,len(KINDS),3) if tier=='quick' else range(len(KINDS)))]

@obligation('C07','shape', bounds={'quick':"one triple, 3 rows over keys {a, b, 7 (non-string)}: key presence per row enumerated (ragged), value kind of 'a' = k1 (optionally k2 in the last row: one column, two shapes) (all 20 kinds), of 'b' = k2 (every third kind), key 7 an int; params dictionaries of environment/learner/evaluator carry the same two kinds; sinks {none, plain file, .gz file, file with .gz inside its name} + from_file",
                                   'thorough':"all 20 x 20 kind pairs"},
            functions=FUNCS, params=shape_params, classify=_classify, budget={'quick':100,'thorough':1500})
def shape(sym, k1, k2):
    ka, kb = KINDS[k1], KINDS[k2]
    pres = [(sym.flag(f'a{i}'), sym.flag(f'b{i}'), i != 1) for i in range(3)]     # the non-string key is present in rows 0 and 2
    sink = sym.choice('sink', ['none','plain','gz','gz_mid'])
    mix = sym.flag('mixed_column')              # the last row carries a value of the OTHER kind under key 'a' (one column, two shapes)
    rows = []
    for i,(pa,pb,pn) in enumerate(pres):
        r = {'i': i}
        if pa: r['a'] = VALUES[kb if (mix and i == 2) else ka]
        if pb: r['b'] = VALUES[kb]
        if pn: r[7] = i+0.5
        rows.append(r)
    if ka == 'reward' or kb == 'reward': p_extra = {}
    else: p_extra = {'pa': VALUES[ka], 'pb': VALUES[kb]}
    envp, lrnp, valp = dict(p_extra, name='E'), dict(p_extra, family='F'), dict(p_extra, vtag='V')
    sym.note(ka=ka, kb=kb, sink=sink)
    exp.reset_context()
    d = tempfile.mkdtemp(prefix='c07_')
    try:
        f = None if sink == 'none' else os.path.join(d, {'gz':'r.log.gz','plain':'r.log','gz_mid':'r.gz.1'}[sink])
        try:
            res = Experiment([(PEnv(envp), PLearner(lrnp), ShapeEval(rows, valp))]).run(f, quiet=True, processes=1, maxchunksperchild=0, maxtasksperchunk=0)
        except Exception as e:
            sym.fail(f"Experiment.run raised {type(e).__name__}: {str(e)[:90]} for kinds ({ka},{kb})")
        t = res.interactions
        cols = list(t.columns)
        got = [dict(zip(cols, r)) for r in zip(*[t[c] for c in cols])] if len(t) else []
        sym.check(len(got) == 3, f"{len(got)} interaction rows for 3 yielded rows (kinds {ka},{kb})")
        allkeys = sorted({str(k) for r in rows for k in r}, key=str)
        for i,(g,r) in enumerate(zip(got,rows)):
            sym.check(g.get('index') == i+1, f"row {i} has index {g.get('index')}")
            for k in allkeys:
                src = next((v for kk,v in r.items() if str(kk) == k), None)
                if isinstance(src, BinaryReward): continue
                exp_v = canon(norm_value(src)) if src is not None else None
                sym.check(k in g, f"column {k!r} missing from the interactions table")
                if k in g: sym.check(canon(g[k]) == exp_v, f"row {i} field {k!r} (kind {(kb if (mix and i == 2) else ka) if k=='a' else kb if k=='b' else 'num'}): table has {canon(g[k])!r}, evaluator yielded {src!r} -> expected {exp_v!r}")
        for tab, p, idc in ((res.environments, envp, 'environment_id'), (res.learners, lrnp, 'learner_id'), (res.evaluators, valp, 'evaluator_id')):
            row = dict(zip(tab.columns, next(iter(zip(*[tab[c] for c in tab.columns])))))
            for k,v in p.items():
                sym.check(k in row and canon(row[k]) == canon(norm_value(v)), f"parameter {k!r} of {idc[:-3]}: table has {canon(row.get(k))!r}, component reported {v!r}")
        if f:
            a, b = exp.comparable(res), exp.comparable(Result.from_file(f))
            dd = exp.diff(a, b)
            sym.check(dd is None, f"Result returned by run(file) differs from Result.from_file: {dd}")
            exp.reset_context()
            res0 = Experiment([(PEnv(envp), PLearner(lrnp), ShapeEval(rows, valp))]).run(None, quiet=True, processes=1, maxchunksperchild=0, maxtasksperchunk=0)
            dd = exp.diff(exp.comparable(res0), a)
            sym.check(dd is None, f"Result with a {sink} file differs from the Result without a file: {dd}")
    finally:
        shutil.rmtree(d, ignore_errors=True)

# ---------------------------------------------------------------------------------------------------
def restored_params(tier):
    ks = [('float','list'),('nested','str'),('dict','none'),('tuple','negfloat'),('nan','big')] if tier == 'quick' else [(a,b) for a in KINDS for b in KINDS[::4] if 'reward' not in (a,b)]
    return [dict(ka=a, kb=b, gz=g) for a,b in ks for g in (False,True)] + [dict(ka=a, kb=b, gz=False, drop=True) for a,b in ks[:2 if tier == 'quick' else 5]]

@obligation('C07','restored', bounds={'quick':"restored runs: 3 triples (one environment x three learners) whose evaluator rows carry two value kinds (5 kind pairs); the log of a complete run is cut at a solver-chosen point - every record boundary, and for plain files also 1 byte, 5 bytes and half a record before the end of each triple record (a torn record) - and the same experiment is run again on it, then once more: Result of the restored run == Result.from_file == Result without a file",
                                      'thorough':"19 x 5 kind pairs"},
            functions=FUNCS, params=restored_params, classify=_classify, budget={'quick':100,'thorough':1500})
def restored(sym, ka, kb, gz, drop=False):
    rows = [{'i': 0, 'a': VALUES[ka]}, {'i': 1, 'b': VALUES[kb], 7: 1.5}, {'i': 2, 'a': VALUES[ka], 'b': VALUES[kb]}]
    def build():
        return Experiment([(PEnv({'name':'E','pa':VALUES[ka]}), PLearner({'family':'F','tag':j,'pb':VALUES[kb]}), ShapeEval([dict(r, j=j) for r in rows], {'vtag':'V'})) for j in range(3)])
    run = lambda f: build().run(f, quiet=True, processes=1, maxchunksperchild=0, maxtasksperchunk=0)
    exp.reset_context()
    d = tempfile.mkdtemp(prefix='c07r_')
    try:
        f = os.path.join(d, 'r.log.gz' if gz else 'r.log')
        ref = exp.comparable(run(None))
        run(f)
        raw = open(f,'rb').read()
        if gz:
            import gzip, io
            # member boundaries: DiskSink writes one gzip member per record
            cuts, pos = [], 0
            import zlib
            while pos < len(raw):
                dobj = zlib.decompressobj(31); dobj.decompress(raw[pos:]); pos = len(raw) - len(dobj.unused_data); cuts.append(pos)
            cuts = cuts[1:]                                   # keep at least the version record (a shorter file is a C02 known finding)
        else:
            ends = [i+1 for i,b in enumerate(raw) if b == 10]
            cuts = list(ends[1:])
            for a,b in zip(ends[1:], ends[2:]):
                for back in (1, 5, (b-a)//2):
                    if b-back > a: cuts.append(b-back)
        cuts = sorted(set(cuts))
        if drop:
            # a record that never reached the log (a component whose params raised once, a killed multi-process run whose
            # workers report in any order): one whole record behind the version and experiment records is absent
            lines = raw.split(b'\n')[:-1]
            j = 2 + unwrap_int(sym, len(lines)-2)
            k = -j
            sym.note(dropped_record=lines[j][:40].decode('ascii','replace'))
            open(f,'wb').write(b''.join(l+b'\n' for i,l in enumerate(lines) if i != j))
        else:
            k = cuts[unwrap_int(sym, len(cuts))]
            sym.note(cut=k, total=len(raw), gz=gz)
            open(f,'wb').write(raw[:k])
        exp.reset_context()
        try: res2 = run(f)
        except Exception as e: sym.fail(f"restored run raised {type(e).__name__}: {str(e)[:90]} (file cut at byte {k} of {len(raw)})")
        dd = exp.diff(ref, exp.comparable(res2))
        sym.check(dd is None, f"Result of the run restored from a log cut at byte {k}/{len(raw)} differs from the Result without a file: {dd}")
        dd = exp.diff(ref, exp.comparable(Result.from_file(f)))
        sym.check(dd is None, f"Result.from_file after the restored run (cut at byte {k}/{len(raw)}) differs from the Result without a file: {dd}")
        exp.reset_context()
        res3 = run(f)
        dd = exp.diff(ref, exp.comparable(res3))
        sym.check(dd is None, f"a further run on the completed file (cut at byte {k}/{len(raw)}) differs from the Result without a file: {dd}")
    finally:
        shutil.rmtree(d, ignore_errors=True)

def unwrap_int(sym, n):
    from symx import unwrap
    return unwrap(sym.int('cut_index', 0, n-1))

# ---------------------------------------------------------------------------------------------------
class _IntMeta(type):
    def __instancecheck__(cls, x): return isinstance(x, int.__class__) or isinstance(x, __builtins__['int'] if isinstance(__builtins__,dict) else __builtins__.int)
    def __call__(cls, x=0, *a):
        import builtins
        if isinstance(x, SymFP): return x
        return builtins.int(x, *a)
class _int(metaclass=_IntMeta): pass

def _isfinite(x):
    if isinstance(x, SymFP): return SymBool(z3.And(z3.Not(z3.fpIsNaN(x.t)), z3.Not(z3.fpIsInf(x.t))))
    return math.isfinite(x)

def _fp_round(self, n=None):
    return SymFP(z3.fpRoundToIntegral(z3.RNE(), self.t))
def _fp_is_integer(self):
    return SymBool(z3.And(z3.fpEQ(z3.fpRoundToIntegral(z3.RNE(), self.t), self.t), z3.Not(z3.fpIsInf(self.t)), z3.Not(z3.fpIsNaN(self.t))))
SymFP.__round__ = _fp_round
SymFP.is_integer = _fp_is_integer

def _minimize_harness(sym, which, B=float(2**20)):
    x = sym.fp('x')
    sym.assume((x >= -B) & (x <= B))
    old_int, old_fin = getattr(cu,'int',None), cu.isfinite
    cu.int, cu.isfinite = _int, _isfinite
    try:
        integral = x.is_integer()
        if which == 'integral':
            sym.assume(integral)
            y = cu.minimize(x)
            sym.check(y == x, "minimize of an integral float is the equal integer")
        else:
            sym.assume(~integral) if hasattr(integral,'t') else None
            y = cu.minimize(x)
            if which == 'close':
                d = y - x
                sym.check((d <= 0.5e-5+1e-9) & (d >= -0.5e-5-1e-9), "|minimize(x)-x| <= 0.5e-5 (+ 1e-9: a few ulps at magnitude 2^20)")
            else:
                z = cu.minimize(y) if not hasattr(y,'t') else _again(y)
                sym.check(z == y, "minimize is idempotent")
    finally:
        cu.isfinite = old_fin
        if old_int is None: del cu.int
        else: cu.int = old_int

def _again(y):
    # y is symbolic: run minimize again on it (it may have become integral)
    return cu.minimize(y) if not isinstance(y.is_integer(), bool) else y

@obligation('C07','minimize_fp', bounds="x any binary64 with |x|<=2^20: integral x -> equal value; minimize(minimize(x))==minimize(x); QF_FP, z3||cvc5, 90 s cap per lemma (the closeness lemma is bit-exact only in the thorough tier, |x|<=4, 800 s cap; see C07.minimize_close)",
            functions=FUNCS, raw=True, budget={'quick':150,'thorough':900}, params=lambda tier: [dict(which=w, B=b) for w,b in (('integral',2**20),('idempotent',2**20))] + ([dict(which='close', B=4)] if tier=='thorough' else []))
def minimize_fp(tier, param):
    from symx import collect, to_smt2, replay, Explorer
    from symx.portfolio import solve
    which = param['which']
    # minimize branches on is_integer()/isfinite: explore those branches symbolically but hand the arithmetic goal to the portfolio
    goals = []
    B = float(param.get('B', 2**20))
    def h(sym): _minimize_harness(sym, which, B)
    import symx
    class Collecting(Explorer):
        pass
    ex = Explorer(solver_timeout_ms=20000)
    ex_goals = []
    orig_check = ex.check
    def check(cond, what="assertion", model=None):
        if hasattr(cond, 't') or is_sym(cond):
            from symx import _bterm
            ex_goals.append((what, list(ex.s.assertions()), _bterm(cond)))
            ex.reached_flag = True; ex.stats['checks'] += 1
            return
        return orig_check(cond, what, model)
    ex.check = check
    ex.explore(h)
    cap = 90 if tier == 'quick' else 800
    res = dict(paths=ex.stats['paths'], reached=max(1,ex.stats['reached']), branches=ex.stats['branches'], checks=len(ex_goals), queries=ex.stats['queries'], solver_s=ex.stats['solver_s'], samples=[], raw_ok=True, verdict='holds')
    for what, assumptions, goal in ex_goals:
        smt = to_smt2(assumptions, goal)
        r = solve(smt, {'x'}, timeout_s=cap)
        res['samples'].append(dict(lemma=what, solvers=r['verdicts'], times=r['times']))
        res['queries'] += len(r['verdicts']); res['solver_s'] += sum(r['times'].values())
        if r['status'] == 'sat':
            xv = r['model'].get('x')
            y = cu.minimize(xv)
            bad = (which == 'integral' and y != xv) or (which == 'close' and abs(y-xv) > 0.5e-5+1e-9) or (which == 'idempotent' and cu.minimize(y) != y)
            res['verdict'] = 'counterexample'
            res['violations'] = [dict(what=f"{what}: x={xv!r} gives {y!r}", signature=what, model=r['model'], choices={}, info={}, replayed=bool(bad), replay_desc=f"minimize({xv!r}) = {y!r}")]
            break
        if r['status'] != 'unsat':
            res['verdict'] = 'inconclusive'; res['inconclusive'] = f"{what}: portfolio {r['verdicts']} {r['times']}"
    return res

from symx import SymFPR

@obligation('C07','minimize_close', bounds="x any real-valued double with |x|<=2^20, every binary64 operation of minimize modelled as exact*(1+e)+n with |e|<=2^-53, |n|<=2^-1075 (standard model, sound without overflow); non-integral x: |minimize(x)-x| <= 0.5e-5+1e-9; integral x unchanged",
            functions=FUNCS, stubs=["binary64 operations -> standard relative-error model over the reals (SymFPR)", "isfinite -> True on proxies, int() identity on proxies"])
def minimize_close(sym):
    x = sym.fpr('x')
    sym.assume((x >= -2**20) & (x <= 2**20))
    old_int, old_fin = getattr(cu,'int',None), cu.isfinite
    class _I(type):
        def __instancecheck__(cls, v):
            import builtins; return isinstance(v, builtins.int)
        def __call__(cls, v=0, *a):
            import builtins
            return v if isinstance(v, SymFPR) else builtins.int(v,*a)
    class _int2(metaclass=_I): pass
    cu.int = _int2
    cu.isfinite = lambda v: True if isinstance(v, SymFPR) else math.isfinite(v)
    try:
        y = cu.minimize(x)
    finally:
        cu.isfinite = old_fin
        if old_int is None: del cu.int
        else: cu.int = old_int
    if x.is_integer():
        sym.check(y == x, "minimize of an integral float is the equal integer")
    else:
        d = y - x if not isinstance(y, SymFPR) else SymFPR(y.t - x.t)
        sym.check((d <= 0.5e-5+1e-9) & (d >= -0.5e-5-1e-9), "|minimize(x)-x| <= 0.5e-5 (+1e-9)")


# ---------------------------------------------------------------------------------------------------
@obligation('C07','several_triples', bounds="2 learners x 2 evaluators on one environment (plain, or chunk()-ed so that tasks are processed in another order), every evaluator yielding 1-3 rows that name their triple; in-process, with/without a result file: for every triple the interactions table holds exactly its rows, in order, numbered 1..N; the table is sorted by (environment, learner, evaluator) and where(evaluator_id=k) / where(learner_id=k) select exactly the rows of those triples",
            functions=FUNCS, classify=_classify, params=lambda tier: [dict(chunked=c, sink=s) for c in (False,True) for s in ('none','plain','gz')])
def several_triples(sym, chunked, sink):
    nrows = {(j,k): sym.choice(f'n{j}{k}', [1,2,3]) for j in range(2) for k in range(2)}
    order = sym.choice('order', ['lv','vl','mixed'])
    exp.reset_context()
    env = PEnv({'name':'E'})
    if chunked: env = Environments(env).chunk()._envs[0]
    lrns = [PLearner({'family':'F','tag':j}) for j in range(2)]
    vals = [ShapeEval([], {'vtag':k}) for k in range(2)]
    class TripleEval(ShapeEval):
        def __init__(self, k): self.k = k; self._params = {'vtag': k}
        def evaluate(self, env, lrn):
            j = lrn.params['tag']
            for i in range(nrows[(j,self.k)]): yield {'who': f'L{j}V{self.k}', 'i': i, 'vec': [j, self.k, i]}
    vals = [TripleEval(0), TripleEval(1)]
    pairs = {'lv': [(0,0),(0,1),(1,0),(1,1)], 'vl': [(0,0),(1,0),(0,1),(1,1)], 'mixed': [(1,1),(0,0),(1,0),(0,1)]}[order]
    triples = [(env, lrns[j], vals[k]) for j,k in pairs]
    d = tempfile.mkdtemp(prefix='c07t_')
    try:
        f = None if sink == 'none' else os.path.join(d, 'r.log.gz' if sink == 'gz' else 'r.log')
        try: res = Experiment(triples).run(f, quiet=True, processes=1, maxchunksperchild=0, maxtasksperchunk=0)
        except Exception as e: sym.fail(f"Experiment.run raised {type(e).__name__}: {str(e)[:90]}")
        results = [('run', res)] + ([('from_file', Result.from_file(f))] if f else [])
        for label, r in results:
            t = r.interactions
            cols = list(t.columns)
            rows = [dict(zip(cols, x)) for x in zip(*[t[c] for c in cols])] if len(t) else []
            lid = {row['tag']: row['learner_id'] for row in (dict(zip(r.learners.columns, x)) for x in zip(*[r.learners[c] for c in r.learners.columns]))}
            vid = {row['vtag']: row['evaluator_id'] for row in (dict(zip(r.evaluators.columns, x)) for x in zip(*[r.evaluators[c] for c in r.evaluators.columns]))}
            sym.check(len(rows) == sum(nrows.values()), f"{label}: {len(rows)} interaction rows, the evaluators yielded {sum(nrows.values())}")
            keys = [(x['environment_id'], x['learner_id'], x['evaluator_id'], x['index']) for x in rows]
            sym.check(keys == sorted(keys), f"{label}: the interactions table is not ordered by (environment, learner, evaluator, index): {keys}")
            for (j,k),n in nrows.items():
                mine = [x for x in rows if x['learner_id'] == lid[j] and x['evaluator_id'] == vid[k]]
                sym.check([x['index'] for x in mine] == list(range(1,n+1)) and all(x['who'] == f'L{j}V{k}' and x['i'] == i and tuple(x['vec']) == (j,k,i) for i,x in enumerate(mine)), f"{label}: rows of triple (learner {j}, evaluator {k}) are {[(x['index'],x['who'],x['i']) for x in mine]}, it yielded {n} rows")
                sel = r.interactions.where(evaluator_id=vid[k])
                sym.check(sorted(set(sel['who'])) == sorted({f'L{jj}V{k}' for jj in range(2)}) and len(sel) == sum(nrows[(jj,k)] for jj in range(2)), f"{label}: where(evaluator_id={vid[k]}) selects {sorted(set(sel['who']))} ({len(sel)} rows)")
            for j in range(2):
                sel = r.interactions.where(learner_id=lid[j])
                sym.check(sorted(set(sel['who'])) == sorted({f'L{j}V{kk}' for kk in range(2)}) and len(sel) == sum(nrows[(j,kk)] for kk in range(2)), f"{label}: where(learner_id={lid[j]}) selects {sorted(set(sel['who']))} ({len(sel)} rows)")
    finally:
        shutil.rmtree(d, ignore_errors=True)

"""C01 Experiment results do not depend on execution configuration."""
import os, json
from vf.run import obligation
from symx import is_sym, unwrap
from vf import exp

EXPLANATION = ("Reference = the real in-process Experiment.run(processes=1, maxchunksperchild=0, maxtasksperchunk=0). Every other configuration is executed by an "
               "in-process emulation built only from coba's own stages (MakeTasks, ChunkTasks(mt) with a solver-chosen mt, ProcessFilter/ProcessTasks on pickled "
               "chunks in a context reset to import-time defaults, TransactionEncode/Decode/Result) with a solver-chosen arrival order of worker outputs; "
               "the emulation is pinned to reality by real spawn-based multi-process runs whose Results must equal it.")
ASSUMPTIONS = ["the solver's role here is exhaustive enumeration of a finite configuration/schedule space (maxtasksperchunk in [0,4] as a z3 integer inside the real ChunkTasks; arrival order of chunk outputs from {as produced, reversed, odd/even interleaved, rotated}), not value reasoning",
               "processes and maxchunksperchild do not change what a worker computes in the emulation (each chunk is evaluated on pickled copies in a reset context); their effect under the real OS scheduler is covered only by the real validation runs (2 per quick run, 10 per thorough run)",
               "programs: 8 menu entries built from seeded synthetic/custom environments (shared chunk()/cache() prefixes, shuffle(n=2), take, logged), Random/BanditEpsilon/PMF-returning/kwargs-returning learners, SequentialCB/RejectionCB/custom evaluators, cross products and explicit tuple lists with shared objects; experiment seeds {1,7}",
               "cloudpickle, >3 workers and every OS schedule of real workers are outside the claim"]
FUNCS = ['coba.experiments.core:Experiment.run','coba.experiments.core:Experiment._parse_init_args','coba.experiments.process:MakeTasks.read','coba.experiments.process:ChunkTasks._chunks',
         'coba.experiments.process:ChunkTasks._max_chunker','coba.experiments.process:ProcessTasks.filter','coba.multiprocessing:CobaMultiprocessor.ProcessFilter.filter',
         'coba.results.core:TransactionEncode.filter','coba.results.core:TransactionDecode.filter','coba.results.core:TransactionResult.filter','coba.evaluators.sequential:SequentialCB.evaluate',
         'coba.evaluators.sequential:RejectionCB.evaluate','coba.safety:SafeLearner.predict']

ARRIVALS = ['identity','reversed','interleave','rotate']

def _classify(v): return v['what'].split(':')[0][:100]

@obligation('C01','emulated_configs', bounds={'quick':"14 programs x experiment seed {1,7} x maxtasksperchunk in [0,4] (z3 int through the real ChunkTasks) x 4 arrival orders of worker outputs; second construction+run equals the first",
                                              'thorough':"experiment seeds {1,7,13,42}; maxtasksperchunk in [0,7]"},
            functions=FUNCS, params=lambda tier: [dict(prog=p, seed=s) for p in exp.PROGRAMS for s in ((1,7) if tier == 'quick' else (1,7,13,42))], classify=_classify, budget={'quick':60,'thorough':900})
def emulated_configs(sym, prog, seed):
    ref = exp.comparable(exp.run_real(prog, seed=seed, processes=1, maxchunksperchild=0, maxtasksperchunk=0))
    again = exp.comparable(exp.run_real(prog, seed=seed, processes=1, maxchunksperchild=0, maxtasksperchunk=0))
    d = exp.diff(ref, again)
    sym.check(d is None, f"second construction and run differs from the first: {d}")
    mt = sym.int('mt', 0, 4 if os.environ.get('VERIF_TIER_EFFECTIVE','quick') == 'quick' else 7)
    arrival = ARRIVALS[unwrap(sym.int('arrival', 0, 3))]
    got = exp.comparable(exp.emulate(prog, seed=seed, mt=mt, arrival=arrival))
    d = exp.diff(ref, got)
    sym.note(prog=prog, mt=str(mt), arrival=arrival)
    sym.check(d is None, f"worker execution (maxtasksperchunk={unwrap(mt)}, arrival={arrival}) differs from the in-process Result: {d}")
    sym.check(len(ref['interactions']['rows']) > 0, "reference run produced no interaction rows")

def real_params(tier):
    seed = int(os.environ.get('VERIF_SEED','0') or 0)
    progs = list(exp.PROGRAMS)
    cfgs = [(2,1,0),(3,0,2),(2,2,1),(2,0,4),(3,1,3)]
    if tier == 'quick':
        # one fixed run in which a worker is limited to ONE chunk that holds several tasks, plus two picked by VERIF_SEED
        return [dict(prog='chunk_shuffle', cfg=(2,1,0))] + [dict(prog=progs[(seed+i*3) % len(progs)], cfg=cfgs[(seed+i) % len(cfgs)]) for i in range(2)]
    return [dict(prog=pr, cfg=cfgs[(seed+i+j*2) % len(cfgs)]) for i,pr in enumerate(progs) for j in range(2)]

@obligation('C01','real_multiprocess', bounds={'quick':"3 real spawn-based runs (one fixed: a chunked program with maxchunksperchild=1; two with program and (processes,maxchunksperchild,maxtasksperchunk) picked by VERIF_SEED) must equal the in-process Result and the emulation",
                                               'thorough':"every program under 2 of the 5 configurations (22 real runs)"},
            functions=FUNCS, params=real_params, classify=_classify, raw=True, budget={'quick':150,'thorough':600})
def real_multiprocess(tier, param, replay_model=None):
    prog, (p, mc, mt) = param['prog'], param['cfg']
    ref = exp.comparable(exp.run_real(prog, seed=1, processes=1, maxchunksperchild=0, maxtasksperchunk=0))
    ref = json.loads(json.dumps(ref, default=str))
    import subprocess
    real = None
    for attempt in range(2):
        try: real = exp.run_real_subprocess(prog, 1, p, mc, mt, timeout=150); break
        except subprocess.TimeoutExpired: continue
    if real is None:
        # not a verdict about C01: the real run did not come back (seen once in this sandbox under a load of ~80 processes and not reproduced in 12 sequential repetitions)
        return dict(paths=1, reached=1, branches=1, checks=0, queries=0, solver_s=0.0, validated=0, raw_ok=True, samples=[], verdict='inconclusive',
                    inconclusive=f"real multi-process run of {prog} with (processes,maxchunksperchild,maxtasksperchunk)={(p,mc,mt)} did not finish within 150 s in two attempts")
    emu = json.loads(json.dumps(exp.comparable(exp.emulate(prog, seed=1, mt=mt)), default=str))
    d1, d2 = exp.diff(ref, real), exp.diff(emu, real)
    res = dict(paths=1, reached=1, branches=1, checks=2, queries=0, solver_s=0.0, validated=1, raw_ok=True,
               samples=[dict(real_run=dict(prog=prog, processes=p, maxchunksperchild=mc, maxtasksperchunk=mt), equal_to_inprocess=d1 is None, equal_to_emulation=d2 is None)])
    if d1 is None and d2 is None: res['verdict'] = 'holds'
    else:
        res['verdict'] = 'counterexample'
        what = f"real multi-process run (processes={p},maxchunksperchild={mc},maxtasksperchunk={mt}) of program {prog} differs: vs in-process: {d1}; vs emulation: {d2}"
        res['violations'] = [dict(what=what, signature=f"real run differs from {'in-process' if d1 else 'emulation'}", model={}, choices={}, info=dict(prog=prog,cfg=[p,mc,mt]), replayed=True, replay_desc=what)]
    return res

"""C10 Changing representation never changes which action earns which reward."""
import itertools
from vf.run import obligation
from symx import is_sym, And, Or

import coba.environments.filters as ef
from coba.environments.filters import Repr, Flatten, Sparsify, Densify, Noise, Batch, Finalize, Unbatch
from coba.environments import Environments
from coba.pipes.rows import HeadDense, LazySparse
import copy as _copy
from coba.primitives import Categorical, BinaryReward, DiscreteReward, HammingReward, L1Reward, is_batch

EXPLANATION = ("Chains of the real representation filters (Repr, Flatten, Sparsify, Densify, Noise on actions, Batch, Finalize and the Environments shortcuts) "
               "run on interactions whose reward VALUES are symbolic reals (so 'the i-th action still earns the i-th reward' is a z3-decided identity per "
               "position, whether rewards are a list, a reward object or a callable) and whose logged action/reward/probability are tracked through the chain.")
ASSUMPTIONS = ["actions are concrete objects of 6 kinds (ints, strings, Categoricals, dense tuples, nested dense, sparse dicts); which filter chain and parameters are applied is enumerated; reward values, logged reward and probability are exact reals k/4",
               "Noise uses integer noise ('i',1,1) on well separated numeric actions (no collisions by construction); its random stream is the real seeded one",
               "equality of actions before/after is by ==; the logged action must be == to the member of the new action set at its old position"]
FUNCS = ['coba.environments.filters:Repr','coba.environments.filters:Flatten','coba.environments.filters:Sparsify','coba.environments.filters:Densify',
         'coba.environments.filters:Noise','coba.environments.filters:Batch','coba.environments.filters:Finalize','coba.environments.filters:Harden',
         'coba.pipes.rows:EncodeCatRows','coba.primitives:BinaryReward','coba.primitives:DiscreteReward','coba.primitives:HammingReward','coba.primitives:L1Reward']

LEVELS = ['u','v','w']
ACTION_KINDS = {
    'int':    lambda: [10,20,30],
    'str':    lambda: ['a','b','c'],
    'cat':    lambda: [Categorical(l,LEVELS) for l in LEVELS],
    'dense':  lambda: [(1,0,5),(0,1,5),(2,2,5)],
    'nested': lambda: [((1,2),3),((4,5),6),((7,8),9)],
    'sparse': lambda: [{'a':1},{'b':2},{'a':3,'c':4}],
    'densecat': lambda: [(Categorical('u',LEVELS),1),(Categorical('v',LEVELS),2),(Categorical('w',LEVELS),3)],
    'nestedcat': lambda: [[1,[Categorical('u',LEVELS),5]], [2,[Categorical('v',LEVELS),6]], [3,[Categorical('w',LEVELS),7]]],   # mutable lists nesting a categorical
    'lazysparse': lambda: [LazySparse({'a':1}), LazySparse({'a':1,'b':2}), LazySparse({'c':3})],                                # row views; the first is a subset of the second
    'head':   lambda: [HeadDense([1,0,5],{'x':0,'y':1,'z':2}), HeadDense([0,1,5],{'x':0,'y':1,'z':2}), HeadDense([2,2,5],{'x':0,'y':1,'z':2})],   # dense rows carrying header names (as LazyDense/HeadRows produce)
}
FILTERS = {
    'repr_onehot':   lambda: Repr('onehot','onehot'),
    'repr_tuple':    lambda: Repr('onehot_tuple','onehot_tuple'),
    'repr_string':   lambda: Repr('string','string'),
    'repr_ctx_only': lambda: Repr('onehot',None),
    'repr_act_only': lambda: Repr(None,'onehot'),
    'flatten':       lambda: Flatten(),
    'sparse_a':      lambda: Sparsify(context=False, action=True),
    'sparse_ca':     lambda: Sparsify(context=True, action=True),
    'dense_lookup':  lambda: Densify(8,'lookup',context=True,action=True),
    'dense_hash':    lambda: Densify(64,'hashing',context=False,action=True),
    'noise_a':       lambda: Noise(action=('i',1,1), seed=3),
    'batch':         lambda: Batch(2),
    'finalize':      lambda: ef.BatchSafe(Finalize()),
}

NOT_BATCH_AWARE = {'repr_onehot','repr_tuple','repr_string','repr_ctx_only','repr_act_only','flatten','sparse_a','sparse_ca','dense_lookup','dense_hash','noise_a'}

def make_rewards(sym, kind, actions, vals, i):
    if kind == 'list': return list(vals)
    if kind == 'binary':
        return BinaryReward(actions[i % len(actions)], vals[0])
    if kind == 'discrete': return DiscreteReward(list(actions), list(vals))
    if kind == 'lambda':
        return (lambda a, acts=_copy.deepcopy(list(actions)), vs=list(vals): next(v for x,v in zip(acts,vs) if x == a))     # the function holds its OWN copy of the actions
    if kind == 'l1': return L1Reward(actions[i % len(actions)])
    raise ValueError(kind)

def call(rw, actions, k):
    if callable(rw): return rw(actions[k])
    return rw[k]

def params(tier):
    chains = [(f,) for f in FILTERS]
    if tier == 'quick':
        two = [('repr_onehot','finalize'),('flatten','repr_onehot'),('sparse_a','dense_lookup'),('noise_a','finalize'),('batch','finalize'),('repr_string','sparse_a'),('finalize','batch'),('sparse_a','noise_a'),('sparse_a','repr_onehot'),('sparse_ca','finalize'),('batch','sparse_a')]
    else:
        two = [(a,b) for a in FILTERS for b in FILTERS if a != b]
    # three interactions whose first two action sets are equal and whose third differs (order and size): filters that look at the first two only
    three = [dict(chain=[f], ak=k, pat='AAB') for f in ('repr_onehot','repr_tuple','repr_string','repr_act_only','finalize','flatten','sparse_a','dense_lookup','noise_a') for k in ('cat','densecat','str','sparse')]
    return [dict(chain=list(c), ak=k) for c in chains+two for k in ACTION_KINDS] + three

def _classify(v):
    info = v.get('info',{})
    w = v['what']
    kind = w.split(':')[0]
    ch = (info.get('chain') or '').split('>')
    if len(ch) == 2 and ch[0] == 'batch' and ch[1] in NOT_BATCH_AWARE:
        return "Batch followed by a representation filter that is not batch-aware (Repr/Flatten/Sparsify/Densify/Noise): the batch is treated as one interaction"
    return f"{info.get('chain')}|{info.get('ak')}|{info.get('rk')}|{kind}"[:140]

def unbatch(inter):
    out = []
    for d in inter:
        if any(is_batch(v) for v in d.values()):
            n = len(d['actions'])
            for r in range(n): out.append({k:(v[r] if is_batch(v) else v) for k,v in d.items()})
        else: out.append(d)
    return out

@obligation('C10','rewards_follow_actions', bounds={'quick':"2 interactions (equal action sets, or the first one reversed with one action fewer) x 3 actions of 10 kinds (incl. header-carrying dense rows, lists nesting a categorical, sparse row views one of which is a subset of another); optional IGL feedbacks as list or callable; rewards as list / BinaryReward(value k/4) / DiscreteReward / callable / L1Reward (numeric actions); optional logged action+reward+probability; every single filter of 13 configurations and 11 two-filter chains",
                                                   'thorough':"all ordered pairs of the 13 filter configurations"},
            functions=FUNCS, params=params, classify=_classify, budget={'quick':80,'thorough':1500})
def rewards_follow_actions(sym, chain, ak, pat=None):
    rk = sym.choice('rk', ['list','binary','discrete','lambda'] + (['l1'] if ak == 'int' else []))
    same = sym.flag('same_actions') if not pat else True
    N = 3 if pat else 2
    logged = sym.flag('logged')
    fbk = sym.choice('feedbacks', ['none','list','callable'])        # IGL feedback next to the rewards
    sym.note(chain='>'.join(chain), ak=ak, rk=rk)
    base = ACTION_KINDS[ak]()
    inter, orig = [], []
    for i in range(N):
        acts = (list(base) if i < 2 else list(reversed(base))[:2]) if pat else list(base) if (same or i == 1) else list(reversed(base))[:2]      # first interaction: other order and one action fewer (pattern AAB: the third)
        vals = [sym.real(f'r{i}_{k}', -1, 2, denom=4) for k in range(len(acts))]
        d = {'context': (Categorical('u',LEVELS), 1.5) if i == 0 else (Categorical('w',LEVELS), 2.5), 'actions': acts, 'rewards': make_rewards(sym, rk, acts, vals, i)}
        if logged:
            d['action'] = acts[(i+1) % len(acts)]; d['reward'] = sym.real(f'lr{i}', -1, 2, denom=4); d['probability'] = sym.real(f'lp{i}', 0.25, 1, denom=4)
        fvals = [sym.real(f'f{i}_{k}', 0, 1, denom=2) for k in range(len(acts))]
        if fbk == 'list': d['feedbacks'] = list(fvals)
        elif fbk == 'callable': d['feedbacks'] = (lambda a, acts=list(acts), vs=list(fvals): next(v for x,v in zip(acts,vs) if x == a))
        exp = [call(d['rewards'], acts, k) for k in range(len(acts))]
        orig.append(dict(actions=list(acts), exp=exp, fexp=list(fvals), idx=(i+1) % len(acts), reward=d.get('reward'), prob=d.get('probability')))
        inter.append(d)
    out = inter
    for f in chain:
        out = list(FILTERS[f]().filter(iter(out)))
    out = unbatch(out)
    sym.check(len(out) == N, f"count: {len(out)} interactions after the chain")
    for i,(o,g) in enumerate(zip(out,orig)):
        acts = o['actions']
        sym.check(len(acts) == len(g['actions']), f"nactions: interaction {i} has {len(acts)} actions after the chain, had {len(g['actions'])}")
        for k in range(min(len(acts),len(g['exp']))):
            try:
                got = call(o['rewards'], acts, k)
            except Exception as e:
                sym.fail(f"raise: reward look-up of action {k} raised {type(e).__name__}: {e}")
            sym.check(got == g['exp'][k], f"reward: interaction {i}, action {k} earns a different reward after the chain")
            if fbk != 'none':
                try: gotf = call(o['feedbacks'], acts, k)
                except Exception as e: sym.fail(f"raise: feedback look-up of action {k} raised {type(e).__name__}: {e}")
                sym.check(gotf == g['fexp'][k], f"feedback: interaction {i}, action {k} receives a different feedback after the chain")
        if logged:
            hits = [k for k,a in enumerate(acts) if a == o['action'] or a is o['action']]
            sym.check(g['idx'] in hits, f"logged: interaction {i}: logged action {o['action']!r} is not the member at its old position {g['idx']} of {acts!r}")
            sym.check(o['reward'] == g['reward'] and o['probability'] == g['prob'], f"loggedvals: interaction {i}: logged reward/probability changed")

@obligation('C10','shortcuts', bounds="Environments.repr/flatten/sparse/dense/noise/batch shortcuts over one environment of 2 interactions with Categorical or dense actions and callable rewards",
            functions=FUNCS, params=lambda tier: [dict(sc=s, ak=a) for s in ('repr','flatten','sparse','dense','noise','batch') for a in ('cat','dense','sparse','int')], classify=_classify)
def shortcuts(sym, sc, ak):
    base = ACTION_KINDS[ak]()
    sym.note(chain=f"Environments.{sc}", ak=ak, rk='lambda')
    inter, orig = [], []
    for i in range(2):
        vals = [sym.real(f'r{i}_{k}', -1, 2, denom=4) for k in range(3)]
        acts = list(base)
        inter.append({'context': 1.5, 'actions': acts, 'rewards': make_rewards(sym,'lambda',acts,vals,i)})
        orig.append(vals)
    class E:
        params = {}
        def read(self): return iter([dict(d) for d in inter])
    envs = Environments(E())
    envs = {'repr': lambda e: e.repr('onehot','onehot'), 'flatten': lambda e: e.flatten(), 'sparse': lambda e: e.sparse(True,True),
            'dense': lambda e: e.dense(8,'lookup',True,True), 'noise': lambda e: e.noise(action=('i',1,1)), 'batch': lambda e: e.batch(2)}[sc](envs)
    out = unbatch(list(envs._envs[0].read()))
    sym.check(len(out) == 2, "count")
    for o,vals in zip(out,orig):
        for k in range(3):
            try: got = call(o['rewards'], o['actions'], k)
            except Exception as e: sym.fail(f"raise: reward look-up raised {type(e).__name__}: {e}")
            sym.check(got == vals[k], f"reward: action {k} earns a different reward after Environments.{sc}")


@obligation('C10','shortcuts_two_envs', bounds="Environments.dense(4,'lookup')/sparse/repr/noise shortcuts over TWO environments whose sparse (or categorical) actions use different feature names, each of which alone fits the 4 columns; both environments read in either order, rewards given as functions: every action of every environment still earns its own reward",
            functions=FUNCS, params=lambda tier: [dict(sc=s, order=o, na=na) for s in ('dense','sparse','repr','noise') for o in ((0,1),(1,0),(0,1,0)) for na in ((1,2,3) if s == 'dense' else (3,))], classify=_classify)
def shortcuts_two_envs(sym, sc, order, na=3):
    sym.note(chain=f"Environments.{sc} x2", ak='sparse', rk='lambda')
    sets = [[{'a':1},{'b':2},{'c':3}][:na], [{'d':1},{'e':2},{'f':3},{'g':1}]] if sc != 'repr' else [[Categorical(l,LEVELS) for l in LEVELS], [Categorical(l,['p','q']) for l in ['q','p']]]
    data = []
    for e,acts in enumerate(sets):
        inter = []
        for i in range(2):
            vals = [sym.real(f'r{e}_{i}_{k}', -1, 2, denom=4) for k in range(len(acts))]
            inter.append(({'context': 1.5, 'actions': list(acts), 'rewards': make_rewards(sym,'lambda',acts,vals,i)}, vals))
        data.append(inter)
    class E:
        def __init__(self, inter): self.inter = inter; self.params = {}
        def read(self): return iter([dict(d) for d,_ in self.inter])
    envs = Environments(E(data[0]), E(data[1]))
    envs = {'repr': lambda e: e.repr('onehot','onehot'), 'sparse': lambda e: e.sparse(True,True),
            'dense': lambda e: e.dense(4,'lookup',False,True), 'noise': lambda e: e.noise(action=('i',1,1))}[sc](envs)
    for e in order:
        out = list(envs._envs[e].read())
        sym.check(len(out) == 2, "count")
        for o,(_,vals) in zip(out, data[e]):
            if sc == 'dense': sym.check(len(set(map(tuple,o['actions']))) == len(vals), f"distinct: environment {e}: distinct actions collapsed to {o['actions']!r} by Environments.{sc}")
            for k in range(len(vals)):
                try: got = call(o['rewards'], o['actions'], k)
                except Exception as ex: sym.fail(f"raise: reward look-up raised {type(ex).__name__}: {ex}")
                sym.check(got == vals[k], f"reward: environment {e}, action {k} earns a different reward after Environments.{sc} (read order {order})")

"""C04 Environments can be read any number of times with identical results."""
import pickle, copy, os, tempfile, shutil
from vf.run import obligation
from symx import unwrap, is_sym
from vf import exp
from coba.environments import Environments
from coba.environments.supervised import CsvSource
from coba.pipes import ListSource
from coba.learners import RandomLearner, BanditEpsilonLearner
from coba.context import CobaContext, NullLogger
CobaContext.logger = NullLogger()

EXPLANATION = ("Environments built through the public constructors and a solver-enumerated chain of <=2 built-in filters are driven through a solver-enumerated read "
               "history (full reads, reads abandoned after j interactions, params look-ups, pickle round trips, materialize/cache/chunk, save+from_save); every full read "
               "must deliver the same interactions (reward functions compared point-wise on the action set) and the same params as the first one, and a deep snapshot of the "
               "data handed to the constructors must be unchanged. Data of the custom/supervised sources are z3 integers, so value-dependent filters (Sort, Where, Scale, "
               "Impute) take solver-decided branches.")
ASSUMPTIONS = ["sources: linear/neighbors/kernel/mlp synthetic, lambda (with and without rng), supervised from sequences and from a CSV source, custom environments with symbolic integer features, logged on top of a custom environment; network/OpenML sources, pandas/torch/vowpalwabbit filters outside",
               "read histories of length 3 over {full, partial(j), params, pickle, materialize}; save()/from_save() only in the thorough tier (zip I/O)",
               "pickle round trips are only applied to environments without symbolic data (pickle is a C boundary)"]
FUNCS = ['coba.environments.core:Environments.from_linear_synthetic','coba.environments.core:Environments.from_lambda','coba.environments.core:Environments.from_supervised',
         'coba.environments.core:Environments.from_custom','coba.environments.core:Environments.materialize','coba.environments.core:Environments.cache','coba.environments.core:Environments.chunk',
         'coba.environments.supervised:SupervisedSimulation.read','coba.environments.synthetics:LambdaSimulation.read','coba.environments.filters:Shuffle','coba.environments.filters:Cache',
         'coba.environments.filters:Logged','coba.environments.filters:Noise','coba.environments.filters:Scale','coba.environments.filters:Impute','coba.pipes.filters:Cache','coba.pipes.filters:Reservoir']

class SymEnv:
    """custom environment over caller-owned data"""
    def __init__(self, data, name='sym'): self.data, self.name = data, name
    @property
    def params(self): return {'name': self.name}
    def read(self):
        for d in self.data: yield dict(d)

def _ctx(i): return [i, i % 2]
def _acts(i, c): return [0, 1, 2]
def _rwd(i, c, a): return float((i + a) % 3)
def _ctx_r(i, rng): return [rng.randint(0,3), i]
def _acts_r(i, c, rng): return [0, 1]
def _rwd_r(i, c, a, rng): return rng.randint(0,1) + a

def make_source(sym, kind):
    """returns (Environments, snapshot_fn, symbolic?)"""
    if kind == 'linear':   return Environments.from_linear_synthetic(6, n_actions=3, n_context_features=2, n_action_features=2, seed=3), None, False
    if kind == 'neighbors':return Environments.from_neighbors_synthetic(6, n_actions=3, n_context_features=2, n_action_features=2, n_neighborhoods=3, seed=3), None, False
    if kind == 'kernel':   return Environments.from_kernel_synthetic(6, n_actions=3, n_context_features=2, n_action_features=2, n_exemplars=3, seed=3), None, False
    if kind == 'mlp':      return Environments.from_mlp_synthetic(6, n_actions=3, n_context_features=2, n_action_features=2, seed=3), None, False
    if kind in ('linear0','neighbors0','kernel0','mlp0'):         # no context and no action features: the constructors delegate to other simulations
        ctor = {'linear0': Environments.from_linear_synthetic, 'neighbors0': Environments.from_neighbors_synthetic, 'kernel0': Environments.from_kernel_synthetic, 'mlp0': Environments.from_mlp_synthetic}[kind]
        return ctor(6, n_actions=3, n_context_features=0, n_action_features=0, seed=3), None, False
    if kind == 'lambda':   return Environments.from_lambda(6, _ctx, _acts, _rwd), None, False
    if kind == 'lambda30': return Environments.from_lambda(30, _ctx, _acts, _rwd), None, False
    if kind == 'lambda400': return Environments.from_lambda(400, _ctx, _acts, _rwd), None, False      # more look-ups per read than any bounded memo holds
    if kind == 'xy_regression':                                                                        # continuous labels that no 5-decimal form holds
        X = [[(i*3) % 4 - 1, i] for i in range(4)]; Y = [(i+1)/7 for i in range(4)]
        snap = (copy.deepcopy(X), list(Y))
        return Environments.from_supervised(X, Y, 'r'), (lambda: _same(X, Y, snap)), False
    if kind == 'lambda_rng': return Environments.from_lambda(6, _ctx_r, _acts_r, _rwd_r, 5), None, False
    if kind == 'xy':
        X = [[(i*3) % 4 - 1, i] for i in range(4)]; Y = [i % 2 for i in range(4)]
        snap = (copy.deepcopy([[unwrapless(v) for v in r] for r in X]), list(Y))
        return Environments.from_supervised(X, Y, 'c'), (lambda: _same(X, Y, snap)), False
    if kind == 'csv':
        lines = ['a,1,2','b,3,4','a,5,6','b,7,8']
        src = ListSource(lines)
        return Environments.from_supervised(CsvSource(src), 0, 'c'), (lambda: lines == ['a,1,2','b,3,4','a,5,6','b,7,8']), False
    if kind in ('custom','logged'):
        if kind == 'custom': data = [{'context': [sym.int(f'x{i}',-1,1), i], 'actions': [0,1,2], 'rewards': [(i+k) % 3 for k in range(3)]} for i in range(3)]
        else: data = [{'context': [(i*3) % 4 - 1, i], 'actions': [0,1,2], 'rewards': [(i+k) % 3 for k in range(3)]} for i in range(4)]
        snap = [dict(context=list(d['context']), actions=list(d['actions']), rewards=list(d['rewards'])) for d in data]
        def unchanged():
            return len(data) == len(snap) and all(set(d) == {'context','actions','rewards'} and len(d['context']) == 2 and all(a is b for a,b in zip(d['context'],s['context'])) and d['actions'] == s['actions'] and all(a is b for a,b in zip(d['rewards'],s['rewards'])) for d,s in zip(data,snap))
        envs = Environments.from_custom(SymEnv(data))
        if kind == 'logged': envs = envs.logged(BanditEpsilonLearner(.5, seed=2))
        return envs, unchanged, kind == 'custom'
    if kind == 'arff_nominal':
        from coba.environments.supervised import ArffSource
        lines = ["@relation t","@attribute p numeric","@attribute c {r,g,b}","@attribute y {A,B}","@data","1,r,A","2,g,B","3,b,A","4,r,B"]
        keep = list(lines)
        return Environments.from_supervised(ArffSource(ListSource(lines)), 'y'), (lambda: lines == keep), False
    if kind in ('nested_list','nested_ns'):
        from coba.primitives import Categorical
        LV = ['u','v','w']
        if kind == 'nested_list': mk = lambda i: [[Categorical(LV[i % 3], LV), i], i % 2]
        else: mk = lambda i: {'a': [Categorical(LV[i % 3], LV), i], 'b': [3, i]}
        data = [{'context': mk(i), 'actions': [0,1,2], 'rewards': [(i+k) % 3 for k in range(3)]} for i in range(4)]
        snap = copy.deepcopy([d['context'] for d in data])
        def unchanged():
            def eq(a, b):
                if type(a) is not type(b): return False
                if isinstance(a, dict): return a.keys() == b.keys() and all(eq(a[k], b[k]) for k in a)
                if isinstance(a, (list,tuple)): return len(a) == len(b) and all(eq(x,y) for x,y in zip(a,b))
                return a == b
            return all(eq(d['context'], c) for d,c in zip(data, snap))
        return Environments.from_custom(SymEnv(data, kind)), unchanged, False
    raise ValueError(kind)

def unwrapless(v): return v
def _same(X, Y, snap): return all(a is b for r,s in zip(X,snap[0]) for a,b in zip(r,s)) and list(Y) == snap[1]

SOURCES = ['linear','neighbors','kernel','mlp','lambda','lambda_rng','xy','csv','custom','logged','nested_list','nested_ns','arff_nominal','linear0','neighbors0','kernel0','mlp0']
FILTERS = {
    'none':      lambda e: e,
    'shuffle':   lambda e: e.shuffle(seed=3),
    'take':      lambda e: e.take(3),
    'slice':     lambda e: e.slice(1,None,2),
    'reservoir': lambda e: e.reservoir(3, seeds=2),
    'sort':      lambda e: e.sort(0),
    'riffle':    lambda e: e.riffle(1, seed=2),
    'scale':     lambda e: e.scale('min','minmax'),
    'scale_using': lambda e: e.scale('mean','maxabs', using=2),
    'impute':    lambda e: e.impute('mean'),
    'where':     lambda e: e.where(n_interactions=(2,None)),
    'noise':     lambda e: e.noise(context=('i',0,1), seed=4),
    'flatten':   lambda e: e.flatten(),
    'repr':      lambda e: e.repr('onehot','onehot'),
    'sparse':    lambda e: e.sparse(True, False),
    'binary':    lambda e: e.binary(),
    'cycle':     lambda e: e.cycle(2),
    'params':    lambda e: e.params({'p':1}),
    'batch':     lambda e: e.batch(2),
    'batch_unbatch': lambda e: e.batch(2).unbatch(),
    'cache':     lambda e: e.cache(),
    'chunk':     lambda e: e.chunk(),
    'logged':    lambda e: e.logged(RandomLearner(seed=3)),
    'logged_eps':lambda e: e.logged(BanditEpsilonLearner(.5, seed=3)),
    'ope':       lambda e: e.logged(RandomLearner(seed=3)).ope_rewards('IPS'),
    'ope_only':  lambda e: e.ope_rewards('IPS'),            # on an already logged environment
    'logged_shuffle': lambda e: e.logged(RandomLearner(seed=3)).shuffle(seed=2),
    'grounded':  lambda e: e.grounded(4,2,4,2,seed=2),
}

def freeze(it):
    """comparable form of one interaction (reward functions evaluated point-wise on the action set)"""
    out = {}
    from coba.primitives import is_batch
    for k,v in it.items():
        if callable(v) and not isinstance(v,(list,tuple)):
            acts = it.get('actions') or []
            try:
                if is_batch(v): out[k] = ('fn', [[f(a) for a in A] for f,A in zip(v, it['actions'])])
                elif acts: out[k] = ('fn', [v(a) for a in acts])
                else: out[k] = ('fn@probes', [v(a) for a in (0, 0.25, 1/3, 1)])       # continuous actions: the function is compared on fixed probe points
            except Exception as e: out[k] = ('fn-raises', type(e).__name__)
        elif is_batch(v) and len(v) and all(callable(f) for f in v):
            try: out[k] = ('fn', [[f(a) for a in A] for f,A in zip(v, it['actions'])])
            except Exception as e: out[k] = ('fn-raises', type(e).__name__)
        elif hasattr(v,'items') and not isinstance(v,dict): out[k] = dict(v.items())
        elif isinstance(v,(list,tuple)): out[k] = [ (dict(x.items()) if hasattr(x,'items') and not isinstance(x,dict) else list(x) if isinstance(x,(tuple,)) or (hasattr(x,'__iter__') and not isinstance(x,(str,dict,list))) else x) for x in v]
        else: out[k] = v
    return out

def same(a, b):
    if len(a) != len(b): return f"{len(a)} interactions vs {len(b)}"
    for i,(x,y) in enumerate(zip(a,b)):
        if set(x) != set(y): return f"interaction {i}: fields {sorted(x)} vs {sorted(y)}"
        for k in x:
            try: eq = bool(x[k] == y[k])
            except Exception: eq = False
            if not eq: return f"interaction {i} field {k!r}: {x[k]!r} vs {y[k]!r}"
    return None

def _classify(v):
    info = v.get('info',{})
    return f"{info.get('src')}|{info.get('f1')}>{info.get('f2')}|{v['what'].split(':')[0]}"[:140]

OPS = ['full','partial','params','pickle','materialize']

def params_(tier):
    fl = list(FILTERS)
    if tier == 'quick':
        pairs = [(f,'none') for f in fl] + [('shuffle','take'),('logged','shuffle'),('cache','take'),('chunk','shuffle'),('scale','sort'),('impute','scale'),('noise','cache'),('reservoir','batch'),('logged_eps','cache'),('take','cache')]
    else:
        pairs = [(a,b) for a in fl for b in fl if not (a == 'none' and b != 'none') and not (a in ('batch','batch_unbatch') and b in ('batch','batch_unbatch'))]    # batching a batch is outside
    zero = ('linear0','neighbors0','kernel0','mlp0')       # the zero-feature synthetic sources only under a few chains
    zero_pairs = [('none','none'),('shuffle','none'),('cache','none'),('take','none'),('logged','none'),('batch','none')]
    return [dict(src=s, f1=a, f2=b) for s in SOURCES for a,b in pairs if s not in zero or (a,b) in zero_pairs] + [dict(src='lambda400', f1='grounded', f2=b) for b in ('none','cache')] + [dict(src='xy_regression', f1=a, f2='none') for a in ('none','shuffle','cache')] + [dict(src='lambda30', f1=a, f2=b) for a,b in (('cache','none'),('chunk','none'),('cache','take'),('none','none'),('shuffle','cache'))]

@obligation('C04','reread', bounds={'quick':"17 sources (incl. the four synthetic kinds without context/action features, an ARFF file with nominal feature and label, and two whose contexts nest a categorical inside a list / namespace dict) (+ a 30-interaction lambda source for the cache filters) x (27 single filters + 10 two-filter chains) x read histories of 2 operations (3 thorough) from {full read, partial read abandoned after j interactions, params, pickle round-trip, materialize} followed by a full read; symbolic integer features in the custom source",
                                    'thorough':"all ordered filter pairs; plus save()/from_save()"},
            functions=FUNCS, params=params_, classify=_classify, budget={'quick':100,'thorough':3000})
def reread(sym, src, f1, f2):
    sym.note(src=src, f1=f1, f2=f2)
    nops = 2 if os.environ.get('VERIF_TIER_EFFECTIVE','quick') == 'quick' else 3
    ops = [sym.choice(f'op{i}', OPS) for i in range(nops)]
    js = [sym.choice(f'j{i}', [1,3] if nops == 2 else [0,1,3]) if ops[i] == 'partial' else 0 for i in range(nops)]
    # reference: a separately constructed, identical environment read once (so that the object under test may start with a partial read)
    try:
        ref_envs, _, _ = make_source(sym, src)
        ref_env = FILTERS[f2](FILTERS[f1](ref_envs))[0]
        first = [freeze(i) for i in ref_env.read()]
        params0 = dict(ref_env.params)
    except Exception:
        sym.check(True, 'combination not type-compatible: outside the claim'); return    # e.g. cycle on feature-vector actions
    envs, unchanged, symbolic = make_source(sym, src)
    envs = FILTERS[f2](FILTERS[f1](envs))
    if symbolic and 'pickle' in ops: sym.assume(False)
    env = envs[0]
    read_once = False
    for n,(op,j) in enumerate(zip(ops,js)):
        if op == 'full':
            read_once = True
            got = [freeze(i) for i in env.read()]
            d = same(first, got)
            sym.check(d is None, f"read differs from the read of a fresh identical environment after history {ops[:n]}: {d}")
        elif op == 'partial':
            it = iter(env.read())
            for _ in range(j):
                try: next(it)
                except StopIteration: break
            del it
        elif op == 'params':
            if read_once: sym.check(dict(env.params) == params0, f"params changed after history {ops[:n]}: {dict(env.params)} vs {params0}")
        elif op == 'pickle':
            env = pickle.loads(pickle.dumps(env))
        elif op == 'materialize':
            envs = envs.materialize(); env = envs[0]
    got = [freeze(i) for i in env.read()]
    d = same(first, got)
    sym.check(d is None, f"final read differs from the read of a fresh identical environment after history {ops}: {d}")
    sym.check(dict(env.params) == params0 or 'materialize' in ops or 'pickle' in ops, f"params changed after history {ops}: {dict(env.params)} vs {params0}")
    if unchanged is not None:
        sym.check(bool(unchanged()), f"reading modified the data handed to the constructor (history {ops})")


# ---------------------------------------------------------------------------------------------------
def make_two(sym):
    A = [{'context': [(i*2) % 3 - 1, i], 'actions': [0,1,2], 'rewards': [(i+k) % 3 for k in range(3)]} for i in range(3)]
    B = [{'context': [7+i, (i*5) % 4 - 1], 'actions': [0,1,2], 'rewards': [(2*i+k) % 3 for k in range(3)]} for i in range(4)]
    return Environments([SymEnv(A,'A'), SymEnv(B,'B')])

@obligation('C04','several_environments', bounds="an Environments object over TWO custom environments (3 and 4 interactions, concrete features) under each of the 28 filter shortcuts; history of <=3 reads (which environment, full or abandoned after 1 interaction: solver-enumerated) followed by a full read of both: every full read of an environment equals the read of the same environment in a fresh identical Environments object that never read the other one",
            functions=FUNCS, params=lambda tier: [dict(f1=f) for f in FILTERS], classify=lambda v: f"{v.get('info',{}).get('f1')}|{v['what'].split(':')[0]}"[:140], budget={'quick':100,'thorough':900})
def several_environments(sym, f1):
    sym.note(f1=f1)
    ref = []
    try:
        for k in (0,1):
            envs = FILTERS[f1](make_two(sym))
            ref.append(([freeze(i) for i in envs[k].read()], dict(envs[k].params)))
        sym.check(len(envs) == 2 or f1 in ('shuffle',), "shortcut changed the number of environments")
    except Exception:
        sym.check(True, 'combination not type-compatible: outside the claim'); return
    envs = FILTERS[f1](make_two(sym))
    n = sym.choice('n_ops', [1,2,3])
    hist = []
    for i in range(n):
        k = sym.choice(f'env{i}', [0,1]); full = sym.flag(f'full{i}')
        hist.append((k, 'full' if full else 'partial'))
        if full:
            d = same(ref[k][0], [freeze(x) for x in envs[k].read()])
            sym.check(d is None, f"read of environment {k} after history {hist[:-1]} differs from its read in a fresh identical Environments object: {d}")
        else:
            it = iter(envs[k].read()); next(it, None); del it
    for k in (0,1):
        d = same(ref[k][0], [freeze(x) for x in envs[k].read()])
        sym.check(d is None, f"final read of environment {k} after history {hist} differs from its read in a fresh identical Environments object: {d}")
        sym.check(dict(envs[k].params) == ref[k][1], f"params of environment {k} changed after history {hist}")


# ---------------------------------------------------------------------------------------------------
@obligation('C04','derived', bounds="a parent environment (custom source, plain or logged, materialized or not) from which a child is derived by each of the 28 filter shortcuts; the child is read (fully, or abandoned after 1 interaction) once or twice; afterwards the PARENT still reads as a fresh identical parent does and the source data are untouched",
            functions=FUNCS, params=lambda tier: [dict(f2=f) for f in FILTERS], classify=lambda v: f"{v.get('info',{}).get('f2')}|{v['what'].split(':')[0]}"[:140], budget={'quick':100,'thorough':900})
def derived(sym, f2):
    sym.note(f2=f2)
    pk = sym.choice('parent', ['plain','logged','logged_eps'])
    mat = sym.flag('materialized')
    def parent():
        data = [{'context': [(i*3) % 4 - 1, i], 'actions': [0,1,2], 'rewards': [(i+k) % 3 for k in range(3)]} for i in range(4)]
        e = Environments.from_custom(SymEnv(data, 'P'))
        if pk == 'logged': e = e.logged(RandomLearner(seed=3))
        if pk == 'logged_eps': e = e.logged(BanditEpsilonLearner(.5, seed=2))
        return (e.materialize() if mat else e), data
    ref_parent, _ = parent()
    ref = [freeze(i) for i in ref_parent[0].read()]
    p, data = parent()
    snap = [dict(context=list(d['context']), actions=list(d['actions']), rewards=list(d['rewards'])) for d in data]
    try:
        child = FILTERS[f2](p)
        nreads = sym.choice('child_reads', [1,2])
        for r in range(nreads):
            if sym.flag(f'full{r}'): list(child[0].read())
            else:
                it = iter(child[0].read()); next(it, None); del it
    except Exception:
        sym.check(True, 'combination not type-compatible: outside the claim'); return
    d = same(ref, [freeze(i) for i in p[0].read()])
    sym.check(d is None, f"after reading a child derived with '{f2}' the parent ({pk}{', materialized' if mat else ''}) reads differently from a fresh identical parent: {d}")
    sym.check([dict(context=list(x['context']), actions=list(x['actions']), rewards=list(x['rewards'])) for x in data] == snap and all(set(x) == {'context','actions','rewards'} for x in data), "reading a derived environment modified the data handed to the constructor")

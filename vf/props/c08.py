"""C08 Multi-process filtering delivers every output exactly once and never hangs."""
import os, sys, pickle, json, subprocess, tempfile, shutil, collections
from vf.run import obligation
from symx import unwrap, is_sym, And, Or, Not

import coba.pipes.multiprocessing as cpm
from coba.pipes.multiprocessing import Multiprocessor

EXPLANATION = ("The real Multiprocessor.filter body is executed with its module-level primitives (spawn_context Queue/Event, MyProcessLine, ThreadLine) replaced by recording "
               "stand-ins, which hands the harness the REAL worker line, loader line and the two completion callbacks (closures of the live generator frame). K1: the real worker line "
               "runs on an arbitrary queue (solver-chosen contents, poison position, maxtasksperchild, filter behaviour incl. 0/2 outputs per item and raising filters). K2: one call of "
               "each real callback from an arbitrary bookkeeping state (symbolic worker count, poisoned flag, exit code, exceptions) - an inductive step covering every history of worker "
               "exits. K3: per-call state is fresh on every filter() call. K4: the real loader line and loader callback. "
               "schedules: the composition (real generator body, callbacks, loader and worker lines) on simulated queues/events/process glue under a delay-bounded "
               "schedule whose delay positions are z3 integers. Real spawn-based runs validate the composition.")
ASSUMPTIONS = ["OS processes, pipes and the OS scheduler are not executed symbolically: K1-K4 are sequential kernels of the real code on simulated queue/event/process primitives; the composition is explored on the baton scheduler (vf/sim.py: instant FIFO queues honouring maxsize, ProcessLine glue re-expressed on actors, yield points at queue put/get, event wait and participant start) within the stated delay bound, and under real scheduling only by the real validation runs (multiset of outputs, error propagation, early abandonment, 40 s hang watchdog)",
               "byte-code-level races inside one callback (e.g. the non-atomic self._n_procs -= 1 across callback threads) are not explored",
               "items are pickled ints; the wrapped filter is one of {identity-like, two outputs per item, no output for odd items, raising ValueError/KeyError/CobaException at a chosen item}",
               "CobaMultiprocessor is only driven with filters that return an iterable per item (its ProcessFilter does `yield from`), as coba's own callers do",
               "keyboard interrupts and > 3 workers outside"]
FUNCS = ['coba.pipes.multiprocessing:Multiprocessor.filter','coba.pipes.lines:SourceSink.run','coba.pipes.sources:QueueSource.read','coba.pipes.sinks:QueueSink.write',
         'coba.pipes.filters:Slice','coba.pipes.multiprocessing:Foreach','coba.pipes.multiprocessing:Safe','coba.pipes.multiprocessing:Stopper','coba.pipes.multiprocessing:Pickler',
         'coba.pipes.multiprocessing:Unpickler','coba.multiprocessing:CobaMultiprocessor.filter']

class _Captured(BaseException): pass

class FakeQueue:
    """list-backed stand-in for a multiprocessing queue (single-threaded use by the harness)"""
    def __init__(self, maxsize=0): self.items = collections.deque(); self.pulled = 0
    def put(self, x): self.items.append(x)
    def get(self):
        if not self.items: raise _Captured("get() on an empty queue would block")
        self.pulled += 1
        return self.items.popleft()
    def get_nowait(self):
        from queue import Empty
        if not self.items: raise Empty()
        return self.items.popleft()
    def qsize(self): return len(self.items)
    def close(self): pass

class FakeEvent:
    def __init__(self): self.flag = False
    def set(self): self.flag = True
    def wait(self, timeout=None): raise _Captured("captured")
    def is_set(self): return self.flag

class FakeContext:
    def __init__(self): self.queues = []
    def Queue(self, maxsize=0):
        q = FakeQueue(maxsize); self.queues.append(q); return q
    def Event(self): return FakeEvent()

class RecLine:
    """records construction of MyProcessLine / ThreadLine instead of starting anything"""
    made = []
    def __init__(self, line, callback=None, read_wait_store=None):
        self.line, self.callback, self.started = line, callback, False
        RecLine.made.append(self)
    def start(self): self.started = True
    def is_alive(self): return False          # never started: nothing to wait for
    def join(self, timeout=None): pass

def capture(mp, items):
    """drive the real Multiprocessor.filter up to its first wait and return the captured parts"""
    old = (cpm.spawn_context, cpm.MyProcessLine, cpm.ThreadLine)
    ctx = FakeContext()
    cpm.spawn_context, cpm.MyProcessLine, cpm.ThreadLine = ctx, RecLine, RecLine
    RecLine.made = []
    real_qs, sources = cpm.QueueSource, []
    class RecQS(real_qs):
        # the real QueueSource, remembered: the end marker the consumer waits for is whatever ITS source calls poison
        def __init__(self, *a, **k): real_qs.__init__(self, *a, **k); sources.append(self)
    cpm.QueueSource = RecQS
    gen = mp.filter(items)
    try:
        try: next(gen)
        except _Captured: pass
        except StopIteration: pass
    finally:
        cpm.spawn_context, cpm.MyProcessLine, cpm.ThreadLine = old
        cpm.QueueSource = real_qs
    made = list(RecLine.made)
    loader = made[0] if made else None
    workers = made[1:]
    mp._load_stopper._stop = False           # the generator's finally-block stopped the loader when we abandoned it
    in_q, out_q = ctx.queues[0], ctx.queues[1]
    in_q.items.clear(); out_q.items.clear(); in_q.pulled = 0
    out_poison = next((q._poison for q in sources if q._queue is out_q), None)
    return dict(loader=loader, workers=workers, in_q=in_q, out_q=out_q, out_poison=out_poison)

def stream(n, at=None, hook=None):
    """a lazily generated stream: every item is a fresh, short-lived object (as environments/tasks are in coba)"""
    for i in range(n):
        if at is not None and i == at: hook()
        yield (i, str(i)*3)

class F:
    """the wrapped filter"""
    def __init__(self, kind, bad=None, exc='ValueError'): self.kind, self.bad, self.exc = kind, bad, exc; self.seen = []
    LOG = []          # (participant name, item) - class attribute, shared by the copies the simulated children work on
    WHO = staticmethod(lambda: None)
    def filter(self, item):
        if isinstance(item, tuple): item = item[0]           # items are fresh (i, 'iii') tuples, see stream()
        self.seen.append(item)
        F.LOG.append((F.WHO(), item))
        if self.bad is not None and (item in self.bad if isinstance(self.bad, list) else item == self.bad):
            from coba.exceptions import CobaException
            raise {'ValueError':ValueError,'KeyError':KeyError,'CobaException':CobaException,'EOFError':EOFError,'AssertionError':AssertionError,'BrokenPipeError':BrokenPipeError,'StopIteration':StopIteration,'AttributeError':AttributeError}[self.exc](f"boom {item}")
        if self.kind == 'one': return item*10
        if self.kind == 'two': return iter([item*10, item*10+1])
        if self.kind == 'odd_none': return iter([] if item % 2 else [item*10])
        if self.kind == 'none_out': return None if item == 1 else item*10        # None is an output like any other
        raise ValueError(self.kind)
    def expected(self, item):
        if self.kind == 'one': return [item*10]
        if self.kind == 'two': return [item*10, item*10+1]
        if self.kind == 'none_out': return [None if item == 1 else item*10]
        return [] if item % 2 else [item*10]

def _classify(v): return v['what'].split(':')[0][:110]

@obligation('C08','worker_line', bounds="K1: the real worker line on a queue holding q<=4 pickled items with the poison pill at a solver-chosen position (or absent: the line then parks on the empty queue), maxtasksperchild m in [0,3], n_processes in {1,2}; filter kinds {one output, two outputs, no output for odd items}; raising filter (ValueError, KeyError, CobaException, EOFError, AssertionError, BrokenPipeError) at a chosen item",
            functions=FUNCS, classify=_classify, params=lambda tier: [dict(kind=k, exc=e) for k in ('one','two','odd_none') for e in (None,'ValueError','KeyError','CobaException','EOFError','AssertionError','BrokenPipeError')])
def worker_line(sym, kind, exc):
    q = unwrap(sym.int('q', 0, 4))
    pos = unwrap(sym.int('poison_at', 0, q+1))        # q+1: no pill in the queue
    m = unwrap(sym.int('m', 0, 3))
    n = sym.choice('n', [1,2])
    if n == 1 and m == 0: sym.assume(False)             # no worker processes in that configuration
    bad = unwrap(sym.int('bad', 0, max(0,q-1))) if exc and q else None
    if exc and not q: sym.assume(False)
    f = F(kind, bad, exc or 'ValueError')
    mp = Multiprocessor(f, n, m)
    cap = capture(mp, [0,1])          # the queue content is loaded by the harness below
    line = cap['workers'][0].line
    in_q, out_q = cap['in_q'], cap['out_q']
    content = [pickle.dumps(it) for it in stream(q)]
    if pos <= q: content.insert(pos, None)
    for c in content: in_q.put(c)
    raised, parked = None, False
    try:
        line.run()
    except _Captured: parked = True
    except Exception as e: raised = e
    before_pill = pos if pos <= q else q
    limit = before_pill if m == 0 else min(m, before_pill)
    handled = list(range(limit))
    if bad is not None and bad in handled:
        sym.check(raised is not None and type(raised).__name__ == exc, f"filter raised {exc} at item {bad} but the worker line {'returned normally' if raised is None else 'raised '+type(raised).__name__} (the error would be silently dropped)")
        handled = handled[:handled.index(bad)]
    else:
        sym.check(raised is None, f"worker line raised {raised!r}")
    exp_out = [o for i in handled for o in f.expected(i)]
    sym.check(list(out_q.items) == exp_out, f"outputs {list(out_q.items)} but the wrapped filter produces {exp_out} for the items handled (kind={kind}, m={m}, q={q}, pill at {pos})")
    if raised is None and not parked:
        n_pulled_items = len(f.seen)
        sym.check(n_pulled_items == len(handled), f"{n_pulled_items} items reached the filter, {len(handled)} expected")
        if m > 0: sym.check(len(f.seen) <= m, f"a worker handled {len(f.seen)} items with maxtasksperchild={m}")
        # nothing pulled and dropped: what is still queued is exactly the rest
        rest = content[len(handled) + (1 if line[0]._poisoned else 0):]
        sym.check(list(in_q.items) == rest, f"queue afterwards {len(in_q.items)} entries, expected the {len(rest)} entries that were not handled (an item was pulled and dropped)")
        sym.check(line[0]._poisoned == (len(in_q.items) + len(handled) < len(content)), "poisoned flag does not tell whether the pill was consumed")

@obligation('C08','loader_line', bounds="K4: the real loader line (IterableSource -> Stopper -> Pickler -> QueueSink) and the loader callback on q<=5 lazily generated fresh items, n_processes in {1,2,3} with maxtasksperchild 1, the consumer's stop arriving before item s (z3 int) or never: the queue receives a faithful pickle of every item before the stop, in order, exactly once, followed by exactly n pills (none when stopped)",
            functions=FUNCS, classify=_classify)
def loader_line(sym):
    q = unwrap(sym.int('q', 1, 5))
    s_at = unwrap(sym.int('stop_at', 1, q))            # q: never stopped; the first item is peeked before the loader exists
    n = sym.choice('n', [1,2,3])
    mp = Multiprocessor(F('one'), n, 1)
    items = stream(q, s_at if s_at < q else None, lambda: mp._load_stopper.stop())
    cap = capture(mp, items)
    raised = None
    try: cap['loader'].line.run()
    except Exception as e: raised = e
    sym.check(raised is None, f"loader line raised {raised!r}")
    got = [pickle.loads(x) for x in cap['in_q'].items]
    exp = list(stream(q))[:s_at]
    sym.check(got == exp, f"loader: the queue holds {got} but the items before the stop are {exp} (an item was lost, duplicated or replaced by another item's pickle)")
    cap['in_q'].items.clear()
    cap['loader'].callback(W(cap['loader'].line, False, None, 0))
    pills = list(cap['in_q'].items)
    sym.check(pills == ([None]*n if s_at >= q else []), f"loader finished: {pills} written for {n} workers (stopped={s_at < q})")

class W:
    """worker stand-in handed to the completion callback"""
    def __init__(self, line, poisoned, exception, exitcode): self.pipeline, self.poisoned, self.exception, self.exitcode, self.pid = line, poisoned, exception, exitcode, 1
    def is_alive(self): return False

@obligation('C08','callbacks', bounds="K2 (inductive step): one call of the real filter_finished_or_failed / loader_finished_or_failed closure from an arbitrary state: _n_procs in [1,3] (z3 int), worker poisoned (z3 bool), worker exception or not, earlier exceptions or not, exit code in {0,1,-15} (z3 int), loader stopped or not",
            functions=FUNCS, classify=_classify, params=lambda tier: [dict(which=w) for w in ('worker','loader')])
def callbacks(sym, which):
    import builtins, io, contextlib
    mp = Multiprocessor(F('one'), 2, 1)
    cap = capture(mp, [1,2,3])
    n0 = sym.int('n_procs', 1, 3)
    mp._n_procs = n0
    prior = sym.flag('prior_exception')
    mp._exceptions = [RuntimeError('earlier')] if prior else []
    out_q, in_q = cap['out_q'], cap['in_q']
    old = (cpm.MyProcessLine,)
    RecLine.made = []
    cpm.MyProcessLine = RecLine
    try:
        if which == 'worker':
            poisoned = sym.bool('poisoned'); has_exc = sym.flag('worker_exception')
            code = sym.int('exitcode', -15, 1)
            sym.assume(Or(code == 0, code == 1, code == -15))
            w = W(cap['workers'][0].line, poisoned, ValueError('w') if has_exc else None, code)
            with contextlib.redirect_stdout(io.StringIO()):
                cap['workers'][0].callback(w)
            restarted = len(RecLine.made)
            should_restart = (not poisoned) and (code == 0) and not (has_exc or prior)
            if should_restart:
                sym.check(restarted == 1 and RecLine.made[0].started, f"an un-poisoned, error-free worker (exit 0) must be replaced by exactly one new worker, {restarted} started")
                sym.check(mp._n_procs == n0, "worker count changed although the worker was replaced")
                sym.check(len(out_q.items) == 0, "output pill written although workers are still running")
            else:
                sym.check(restarted == 0, f"a worker was restarted although it was poisoned / failed / an error exists (poisoned={poisoned}, exception={has_exc}, prior={prior}, exit={code})")
                sym.check(mp._n_procs == n0-1, "worker count not decremented exactly once")
                if n0 == 1: sym.check(len(out_q.items) == 1 and out_q.items[0] == cap['out_poison'], f"last worker left but the consumer was not released: out queue {list(out_q.items)}")
                else: sym.check(len(out_q.items) == 0, "output pill written before the last worker left")
            if has_exc: sym.check(any(isinstance(e, ValueError) for e in mp._exceptions), "worker exception not recorded")
        else:
            stopped = sym.flag('stopped'); has_exc = sym.flag('loader_exception')
            if stopped: mp._load_stopper.stop()
            w = W(cap['loader'].line, False, KeyError('l') if has_exc else None, 0)
            cap['loader'].callback(w)
            pills = [x for x in in_q.items if x is None]
            n = unwrap(n0)
            sym.check(len(pills) == (0 if stopped else n) and len(in_q.items) == len(pills), f"loader finished: {len(pills)} pills for {n} workers (stopped={stopped})")
            if has_exc: sym.check(any(isinstance(e, KeyError) for e in mp._exceptions), "loader exception not recorded")
    finally:
        cpm.MyProcessLine = old[0]

@obligation('C08','per_call_state', bounds="K3: two consecutive filter() calls on ONE Multiprocessor, the first of which recorded an exception / lost workers: the second call starts with the full worker count, no recorded exceptions and a fresh loader",
            functions=FUNCS, classify=_classify)
def per_call_state(sym):
    n = sym.choice('n', [2,3]); m = sym.choice('m', [0,1])
    mp = Multiprocessor(F('one'), n, m)
    cap1 = capture(mp, [1,2,3])
    # the first call ends badly: a worker reported an exception and all workers left
    if sym.flag('first_call_failed'):
        w = W(cap1['workers'][0].line, True, ValueError('first call'), 0)
        cpm_old = cpm.MyProcessLine; cpm.MyProcessLine = RecLine
        try:
            for _ in range(n): cap1['workers'][0].callback(w)
        finally: cpm.MyProcessLine = cpm_old
        mp._load_stopper.stop()
    cap2 = capture(mp, [4,5])
    sym.check(mp._n_procs == n, f"second call starts with {mp._n_procs} workers instead of {n}")
    sym.check(mp._exceptions == [], f"second call starts with stale exceptions {mp._exceptions}")
    sym.check(len(cap2['workers']) == n, "second call built a different number of workers")
    # a healthy worker exit in the second call must be followed by a restart
    RecLine.made = []
    cpm_old = cpm.MyProcessLine; cpm.MyProcessLine = RecLine
    try: cap2['workers'][0].callback(W(cap2['workers'][0].line, False, None, 0))
    finally: cpm.MyProcessLine = cpm_old
    sym.check(len(RecLine.made) == 1, "in the second call an un-poisoned worker was not replaced (stale state from the first call)")

# ---------------------------------------------------------------------------------------------------
def sched_params(tier):
    P = []
    if tier == 'quick':
        cfgs = [(2,0),(2,1),(1,1),(2,2)]; its = (1,2,3); dl = 1
    else:
        cfgs = [(2,0),(2,1),(1,1),(2,2),(3,1),(3,0),(1,2),(3,2)]; its = (0,1,2,3,4); dl = 2
    for n,m in cfgs:
        for items in its:
            P.append(dict(n=n, m=m, items=items, kind='one', bad=None, abandon=None, delays=dl))
            if items >= 2:
                P.append(dict(n=n, m=m, items=items, kind='two', bad=None, abandon=None, delays=dl))
                P.append(dict(n=n, m=m, items=items, kind='one', bad=items-2, abandon=None, delays=dl))
                P.append(dict(n=n, m=m, items=items, kind='one', bad=None, abandon=1, delays=dl))
            if items >= 3 and tier != 'quick':
                P.append(dict(n=n, m=m, items=items, kind='odd_none', bad=None, abandon=None, delays=dl))
                P.append(dict(n=n, m=m, items=items, kind='two', bad=0, abandon=None, delays=dl))
                P.append(dict(n=n, m=m, items=items, kind='two', bad=None, abandon=3, delays=dl))
    # three workers with a filter failing on the first item; the read-wait hand-shake; a filter raising AttributeError (which ProcessLine.run inspects)
    P += [dict(n=3, m=0, items=3, kind='one', bad=0, abandon=None, delays=dl), dict(n=3, m=1, items=2, kind='one', bad=0, abandon=None, delays=dl),
          dict(n=2, m=0, items=2, kind='one', bad=None, abandon=None, delays=dl, rw=True), dict(n=2, m=1, items=3, kind='two', bad=None, abandon=None, delays=dl, rw=True), dict(n=3, m=1, items=3, kind='one', bad=1, abandon=None, delays=dl, rw=True),
          # a filter raising StopIteration (e.g. next() on an empty iterator) must not read as a normal end of the stream; every worker lineage dying while the loader is parked on the full input queue
          dict(n=2, m=0, items=3, kind='one', bad=1, abandon=None, delays=dl, exc='StopIteration'), dict(n=1, m=1, items=3, kind='one', bad=1, abandon=None, delays=dl, exc='StopIteration'),
          dict(n=1, m=1, items=6, kind='one', bad=0, abandon=None, delays=dl), dict(n=2, m=1, items=8, kind='one', bad=[0,1], abandon=None, delays=dl),
          dict(n=2, m=0, items=3, kind='none_out', bad=None, abandon=None, delays=dl), dict(n=2, m=1, items=3, kind='none_out', bad=None, abandon=None, delays=dl),
          dict(n=2, m=0, items=2, kind='one', bad=1, abandon=None, delays=dl, exc='AttributeError'), dict(n=2, m=1, items=2, kind='one', bad=0, abandon=None, delays=dl, exc='KeyError')]
    if tier != 'quick':
        P += [dict(n=2, m=1, items=3, kind='one', bad=None, abandon=None, delays=3), dict(n=2, m=0, items=3, kind='one', bad=1, abandon=None, delays=3),
              dict(n=2, m=2, items=3, kind='two', bad=None, abandon=None, delays=3), dict(n=3, m=0, items=3, kind='one', bad=0, abandon=None, delays=3)]
    return P

@obligation('C08','schedules', bounds={'quick':"the real Multiprocessor.filter (generator body, both callbacks, real loader and worker lines) on simulated queues/events/process glue under a delay-bounded schedule: deterministic run-to-block round-robin plus 1 delay whose position is a z3 integer over all choice points; (processes,maxtasksperchild) in {(2,0),(2,1),(1,1),(2,2)}, 1..3 items, filter with 1 or 2 outputs, raising at one item (ValueError; AttributeError and KeyError once each), or output abandoned after 1; plus three workers with a filter failing on the first item and three configurations with the read_wait hand-shake",
                                       'thorough':"2 delays (3 for three configurations); (processes,maxtasksperchild) in 8 combinations up to 3 processes; 0..4 items; filters with 0/1/2 outputs per item"},
            functions=FUNCS+['coba.pipes.lines:ThreadLine.run'], classify=_classify, params=sched_params, budget={'quick':120,'thorough':1500},
            stubs=['spawn_context.Queue/Event -> vf.sim.SimQueue/SimEvent (instant visibility, FIFO, maxsize honoured)', 'MyProcessLine/ProcessLine glue (spawn, result pipe, join-and-callback thread) -> vf.sim.SimProcessLine on a deep copy of the real line', 'ThreadLine.start -> actor running the real ThreadLine.run'])
def schedules(sym, n, m, items, kind, bad, abandon, delays, rw=False, exc='ValueError'):
    from vf import sim
    import coba.pipes.lines as cpl
    sched = sim.Sched()
    log = []
    SimPL, SimTL = sim.make_lines(sched, cpl.ThreadLine, log)
    ctx = sim.SimContext(sched)
    D = [sym.int(f'delay{k}', 0, 80) for k in range(delays)]
    for a,b in zip(D, D[1:]): sym.assume(a <= b)
    old = (cpm.spawn_context, cpm.MyProcessLine, cpm.ThreadLine)
    cpm.spawn_context, cpm.MyProcessLine, cpm.ThreadLine = ctx, SimPL, SimTL
    F.LOG = []
    F.WHO = staticmethod(lambda: sched.current().name)
    f = F(kind, bad, exc)
    mp = Multiprocessor(f, n, m, rw)
    res = {}
    def consumer():
        out, err = [], None
        try:
            gen = mp.filter(stream(items))
            for k,o in enumerate(gen):
                out.append(o)
                if abandon is not None and k+1 >= abandon: break
            if hasattr(gen, 'close'): gen.close()
        except Exception as e: err = e
        res['out'], res['err'] = out, err
    c = sched.spawn('consumer', consumer)
    st = dict(used=0, cp=0)
    def choose(step, enabled, d):
        if len(enabled) < 2: return d
        k = 0
        while st['used'] < delays and bool(D[st['used']] == st['cp']):
            st['used'] += 1; k += 1
        st['cp'] += 1
        return (d + k) % len(enabled)
    try:
        r = sched.run(choose, lambda: c.done)
    finally:
        sched.kill()
        cpm.spawn_context, cpm.MyProcessLine, cpm.ThreadLine = old
        F.WHO = staticmethod(lambda: None)
    trace = ' '.join(sched.trace[-25:])
    if r == 'steps':
        from symx import Inconclusive
        raise Inconclusive("step budget of the simulation exhausted")
    sym.check(r != 'deadlock', f"hang: no participant can run while the caller is still waiting (n={n}, m={m}, items={items}); last steps: {trace}")
    errs = [(a.name, a.error) for a in sched.actors if a.error is not None]
    sym.check(not errs, f"participant failed: {errs[:1]}")
    out, err = res['out'], res['err']
    exp_all = [o for i in range(items) if i not in (bad if isinstance(bad, list) else [bad]) for o in f.expected(i)]
    if bad is not None:
        if exc == 'StopIteration': sym.check(err is not None, f"error: the filter raised StopIteration on item {bad} but the call ended normally with outputs {out} (the item's output is silently missing)")
        else: sym.check(err is not None and 'boom' in str(err) and type(err).__name__ == exc, f"error: the filter raised {exc}('boom {bad}') but the call ended with err={err!r} and outputs {out}")
        cnt = collections.Counter(out); ce = collections.Counter(exp_all)
        sym.check(all(cnt[k] <= ce[k] for k in cnt), f"duplicate: outputs {out} contain values not produced (or produced twice)")
    elif abandon is not None:
        sym.check(err is None, f"abandon: abandoning the output raised {err!r}")
        cnt = collections.Counter(out); ce = collections.Counter(exp_all)
        sym.check(len(out) == min(abandon, len(exp_all)) and all(cnt[k] <= ce[k] for k in cnt), f"abandon: outputs {out}")
    else:
        sym.check(err is None, f"error: unexpected {err!r}")
        tag = "multiset-none-output" if kind == 'none_out' else "multiset"
        sym.check(sorted(out, key=repr) == sorted(exp_all, key=repr), f"{tag}: outputs {sorted(out, key=repr)} but the filter produces {sorted(exp_all, key=repr)} (n={n}, m={m}); last steps: {trace}")
    if m > 0:
        per = collections.Counter(w for w,_ in F.LOG)
        sym.check(all(v <= m for v in per.values()), f"limit: a worker handled {max(per.values(), default=0)} items with maxtasksperchild={m}")

REAL = r'''
import sys, os, json, threading, time, warnings; warnings.simplefilter('ignore')
from coba.pipes.multiprocessing import Multiprocessor
from coba.multiprocessing import CobaMultiprocessor
from coba.exceptions import CobaException
class Filt:
    def __init__(self, kind, bad, exc='ValueError'): self.kind, self.bad, self.exc = kind, bad, exc
    def filter(self, item):
        item = item[0]
        if item == self.bad: raise {'ValueError':ValueError,'AttributeError':AttributeError}[self.exc](f"boom {item}")
        if self.kind == 'two': return iter([item*10, item*10+1])
        if self.kind == 'pid': return (os.getpid(), item)
        return item*10
def watchdog(): time.sleep(40); print("RESULT"+json.dumps({"hang":True})); sys.stdout.flush(); os._exit(3)
if __name__ == '__main__':
    threading.Thread(target=watchdog, daemon=True).start()
    cfg = json.loads(sys.argv[1])
    args = (Filt(cfg['kind'], cfg.get('bad'), cfg.get('exc','ValueError')), cfg['n'], cfg['m'])
    mpc = CobaMultiprocessor(*args) if cfg.get('coba') else Multiprocessor(*args, read_wait=bool(cfg.get('rw')))
    out, err = [], None
    try:
        for k,o in enumerate(mpc.filter(((i, str(i)*3) for i in range(cfg['items'])))):
            out.append(o)
            if cfg.get('abandon') is not None and k+1 >= cfg['abandon']: break
    except Exception as e: err = type(e).__name__+': '+str(e)
    print("RESULT"+json.dumps({"out":out,"err":err,"hang":False}))
'''

def real_params(tier):
    base = [dict(kind='one', n=2, m=0, items=5), dict(kind='two', n=2, m=1, items=4), dict(kind='one', n=2, m=2, items=5, bad=3), dict(kind='pid', n=2, m=2, items=6),
            dict(kind='one', n=3, m=1, items=2), dict(kind='one', n=2, m=0, items=6, abandon=2), dict(kind='two', n=2, m=1, items=4, coba=True), dict(kind='one', n=1, m=1, items=3), dict(kind='two', n=2, m=0, items=4, coba=True, bad=2), dict(kind='one', n=2, m=1, items=4, bad=2, exc='AttributeError'), dict(kind='one', n=2, m=1, items=4, rw=True), dict(kind='one', n=3, m=0, items=6, bad=0)]
    seed = int(os.environ.get('VERIF_SEED','0') or 0)
    return [base[(seed+i) % len(base)] for i in range(3)] if tier == 'quick' else base

@obligation('C08','real_runs', bounds={'quick':"3 real spawn-based runs (picked by VERIF_SEED from 12 configurations: processes 1..3, maxtasksperchild 0..2, fewer items than workers, two outputs per item, raising filter, early abandonment, CobaMultiprocessor): output multiset, error propagation, per-worker item limit, termination within 40 s",
                                       'thorough':"all 12 configurations"},
            functions=FUNCS, raw=True, params=real_params, classify=_classify, budget={'quick':150,'thorough':600})
def real_runs(tier, param, replay_model=None):
    d = tempfile.mkdtemp(prefix='c08_')
    try:
        f = os.path.join(d, 'real_main.py'); open(f,'w').write(REAL)
        env = dict(os.environ); env['PYTHONPATH'] = os.environ.get('VERIF_REPO','/repo')
        for attempt in range(2):          # a run that does not come back is repeated once: only a hang seen twice is reported (a loaded machine can starve one run)
            try:
                out = subprocess.run([sys.executable, '-W', 'ignore', f, json.dumps(param)], capture_output=True, text=True, timeout=90, env=env, cwd=d)
                line = next((l for l in out.stdout.splitlines() if l.startswith('RESULT')), None)
                r = json.loads(line[6:]) if line else {'hang': True, 'stderr': out.stderr[-300:]}
            except subprocess.TimeoutExpired:
                r = {'hang': True}
            if not r.get('hang'): break
        problems = []
        if r.get('hang'): problems.append(f"the call did not terminate within 40 s in two attempts ({r.get('stderr','')})")
        else:
            items = list(range(param['items']))
            if param.get('bad') is not None:
                if not r['err'] or 'boom' not in r['err'] or not r['err'].startswith(param.get('exc','ValueError')): problems.append(f"filter raised {param.get('exc','ValueError')}('boom {param['bad']}') but the call returned err={r['err']}")
            elif param.get('abandon') is not None:
                if r['err']: problems.append(f"abandoning the output raised {r['err']}")
            else:
                if r['err']: problems.append(f"unexpected error {r['err']}")
                if param['kind'] == 'pid':
                    per = collections.Counter(p for p,_ in r['out'])
                    if sorted(i for _,i in r['out']) != items: problems.append(f"outputs {r['out']} are not one per item")
                    if param['m'] and max(per.values()) > param['m']: problems.append(f"a worker process handled {max(per.values())} items with maxtasksperchild={param['m']}")
                else:
                    exp = sorted(o for i in items for o in ([i*10, i*10+1] if param['kind']=='two' else [i*10]))
                    if sorted(r['out']) != exp: problems.append(f"output multiset {sorted(r['out'])} != {exp}")
        res = dict(paths=1, reached=1, branches=1, checks=1, queries=0, solver_s=0.0, validated=1, raw_ok=True, samples=[dict(real_run=param, result={k:r.get(k) for k in ('err','hang')})])
        if problems:
            res['verdict'] = 'counterexample'
            res['violations'] = [dict(what=f"real run {param}: {problems[0]}", signature=problems[0].split('(')[0][:60], model={}, choices={}, info=dict(param=param), replayed=True, replay_desc=problems[0])]
        else: res['verdict'] = 'holds'
        return res
    finally:
        shutil.rmtree(d, ignore_errors=True)

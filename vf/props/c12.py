"""C12 What coba reads from a dataset file is what the file says."""
import os, re, sys, gzip, zlib, tempfile, shutil, subprocess, time, ast
from io import BytesIO
from vf.run import obligation
from symx import unwrap

from coba.pipes.sources import HttpSource, DelimSource, IterableSource, DiskSource
from coba.pipes.sinks import DiskSink
from coba.pipes.readers import ArffReader, CsvReader, LibsvmReader, ManikReader, ArffDataReader
from coba.exceptions import CobaException

EXPLANATION = ("(a) The pure-Python string kernels (DelimSource chunk re-splitting, the ARFF missing-value flag) are decided by CrossHair (symbolic str, z3) against "
               "str.splitlines / a cell-wise definition, for all strings up to the stated length; every counterexample is replayed on the real code. (b) Byte-level delivery "
               "(HttpSource._byte_it_: identity/gzip/deflate x chunk size x multi-byte characters x LF/CRLF placement) and (c) table round trips under a solver-enumerated "
               "serialisation dialect (ARFF dense/sparse, CSV, LibSVM, Manik; quote style, escapes, keyword case, comments, blank lines, delimiters) are executed concretely per "
               "enumerated choice because zlib, codecs, csv and re are C modules; (d) DiskSink -> DiskSource framing, plain and .gz.")
ASSUMPTIONS = ["CrossHair bounds: text length <= 4 over {a,LF}, <= 3 over {a,LF,CR} (4 thorough) and <= 3 over all of unicode, two chunks (three in the thorough tier); ARFF data lines of length <= 4 (5 thorough) over {?,comma,a,space}; 'Not confirmed' within the time cap is reported as inconclusive, never as success",
               "arbitrary byte strings through csv/re/zlib/codecs cannot be encoded symbolically: (b),(c),(d) quantify over grammar-bounded serialisations of tables <= 2 rows x 3 columns over a vocabulary containing , ' \" \\ % ? { } space tab and non-ASCII characters",
               "for spellings outside the common Weka/OpenML/RFC-4180 dialect the reader may raise instead of parsing (never a different table)",
               "network access (HttpSource.read) outside; only its chunk/decode generator is driven with in-memory bytes"]
FUNCS = ['coba.pipes.sources:DelimSource.read','coba.pipes.sources:HttpSource._byte_it_','coba.pipes.sources:DiskSource.read','coba.pipes.sinks:DiskSink.write',
         'coba.pipes.readers:ArffReader.filter','coba.pipes.readers:ArffAttrReader','coba.pipes.readers:ArffDataReader._dense','coba.pipes.readers:ArffDataReader._sparse',
         'coba.pipes.readers:ArffLineReader','coba.pipes.readers:CsvReader.filter','coba.pipes.readers:LibsvmReader.filter','coba.pipes.readers:ManikReader.filter']

HERE = os.path.dirname(os.path.dirname(os.path.dirname(os.path.abspath(__file__))))

KERNELS = '''
from typing import List
from coba.pipes.sources import DelimSource, IterableSource
from coba.pipes.readers import ArffDataReader

def delim2(t: str, k: int) -> bool:
    """
    pre: len(t) <= {N} and 0 <= k <= len(t)
    pre: all(c in {ALPHA} for c in t)
    post: _
    """
    return list(DelimSource(IterableSource([t[:k], t[k:]])).read()) == t.splitlines()

def delim2_any(t: str, k: int) -> bool:
    """
    pre: len(t) <= {N} and 0 <= k <= len(t)
    post: _
    """
    return list(DelimSource(IterableSource([t[:k], t[k:]])).read()) == t.splitlines()

def delim3(t: str, k: int, j: int) -> bool:
    """
    pre: len(t) <= {N} and 0 <= k <= j <= len(t)
    pre: all(c in {ALPHA} for c in t)
    post: _
    """
    return list(DelimSource(IterableSource([t[:k], t[k:j], t[j:]])).read()) == t.splitlines()

def arff_dense_missing(line: str) -> bool:
    """
    pre: 1 <= len(line) <= {N}
    pre: all(c in '?,a ' for c in line)
    pre: line[0] != '%'
    post: _
    """
    (got_line, missing), = list(ArffDataReader(True)._dense([line]))
    cells = [c.strip() for c in line.split(',')]
    return missing == any(c == '?' for c in cells)

def arff_sparse_missing(line: str) -> bool:
    """
    pre: 3 <= len(line) <= {N}
    pre: line[0] == '{{' and line[-1] == '}}'
    pre: all(c in '?,1a ' for c in line[1:-1])
    post: _
    """
    (got_line, missing), = list(ArffDataReader(False)._sparse([line]))
    items = [i.split() for i in line[1:-1].split(',')]
    return missing == any(len(i) == 2 and i[1] == '?' for i in items)
'''

def crosshair_params(tier):
    LF, CRLF = "'a'+chr(10)", "'a'+chr(10)+chr(13)"
    q = [dict(fn='delim2', N=4, alpha=LF, cap=70), dict(fn='delim2', N=3, alpha=CRLF, cap=70), dict(fn='delim2_any', N=3, alpha=None, cap=80),
         dict(fn='arff_dense_missing', N=4, alpha=None, cap=70)]
    if tier == 'thorough':
        q += [dict(fn='delim2', N=4, alpha=CRLF, cap=600), dict(fn='delim3', N=4, alpha=LF, cap=600), dict(fn='delim3', N=3, alpha=CRLF, cap=600), dict(fn='delim2_any', N=4, alpha=None, cap=600),
              dict(fn='arff_dense_missing', N=5, alpha=None, cap=600)]
    return q

def _classify(v): return v['what'].split(' :: ')[0][:120]

@obligation('C12','string_kernels', bounds={'quick':"CrossHair: DelimSource two-chunk delivery == str.splitlines for all t with len<=4 over {a,LF}, len<=3 over {a,LF,CR}, len<=3 over all unicode, every cut; ARFF dense missing flag == 'some cell is ?' for lines len<=4 over {?,comma,a,space}",
                                            'thorough':"plus len 4 over {a,LF,CR}, three chunks, unicode len 4, dense ARFF lines len 5 (600 s caps)"},
            functions=FUNCS, raw=True, params=crosshair_params, classify=_classify, budget={'quick':150,'thorough':900})
def string_kernels(tier, param):
    fn, N, alpha, cap = param['fn'], param['N'], param.get('alpha'), param['cap']
    d = tempfile.mkdtemp(prefix='c12_ch_')
    try:
        src = KERNELS.replace('{N}', str(N)).replace('{ALPHA}', alpha or "''").replace('{{','{').replace('}}','}')
        f = os.path.join(d, 'c12_kernels_gen.py'); open(f,'w').write(src)
        line = next(i for i,l in enumerate(src.split('\n'),1) if l.startswith(f'def {fn}(')) + 1
        env = dict(os.environ); env['PYTHONPATH'] = f"{os.environ.get('VERIF_REPO','/repo')}:{HERE}"
        t0 = time.time()
        try:
            out = subprocess.run([sys.executable, '-W', 'ignore', '-m', 'crosshair', 'check', '--report_all', '--per_condition_timeout', str(cap), f"{f}:{line}"],
                                 capture_output=True, text=True, timeout=cap+60, env=env, cwd=d).stdout
        except subprocess.TimeoutExpired:
            out = 'timeout'
        dt = time.time()-t0
        res = dict(paths=1, reached=1, branches=1, checks=1, queries=1, solver_s=round(dt,2), raw_ok=True,
                   samples=[dict(kernel=fn, N=N, alphabet=alpha or ('unicode' if 'any' in fn else 'format alphabet'), crosshair=out.strip()[-200:], seconds=round(dt,1))])
        if 'Confirmed over all paths' in out:
            res['verdict'] = 'holds'
        elif 'false when calling' in out or 'error:' in out:
            m = re.search(r'when calling (\w+)\((.*)\) \(which', out)
            what = f"{fn}(N={N}): CrossHair counterexample {m.group(0) if m else out.strip()[-160:]}"
            replayed, desc = False, 'could not parse the counterexample'
            if m:
                try:
                    args = ast.literal_eval('(' + m.group(2) + ',)')
                    ns = {}; exec(compile(src, f, 'exec'), ns)
                    r = ns[fn](*args)
                    replayed = (r is False); desc = f"{fn}{args!r} returns {r!r} on the real code"
                except Exception as e:
                    replayed = True; desc = f"{fn} raises {type(e).__name__}: {e}"
            res['verdict'] = 'counterexample'
            sig = f"{fn}:" + ('CRLF' if alpha and 'chr(13)' in alpha else 'LF' if alpha else 'unicode/format')
            res['violations'] = [dict(what=what, signature=sig, model={}, choices={}, info=dict(param=param), replayed=replayed, replay_desc=desc)]
        else:
            res['verdict'] = 'inconclusive'; res['inconclusive'] = f"CrossHair: {out.strip()[-120:] or 'no verdict'} after {dt:.0f}s"
        return res
    finally:
        shutil.rmtree(d, ignore_errors=True)

# ---------------------------------------------------------------------------------------------------
PIECES = ['a', 'é', '€', '\U0001F600', '\n', '\r\n', '\r', '', 'b,"c"', '\x1d']

def delivery_params(tier):
    return [dict(enc=e, chunk=c) for e in (None,'gzip','deflate') for c in ((1,2,3,5,8) if tier=='quick' else (1,2,3,4,5,6,7,8))]

@obligation('C12','byte_delivery', bounds={'quick':"text = 4 pieces from {a, 2-/3-/4-byte characters, LF, CRLF, CR, empty, a quoted csv fragment, U+001D}; encodings {identity,gzip,deflate}; chunk sizes {1,2,3,5,8} bytes; lines == text.splitlines(); enumerated concretely (zlib/codecs are C)",
                                           'thorough':"5 pieces; chunk sizes 1..8"},
            functions=FUNCS, params=delivery_params, classify=_classify)
def byte_delivery(sym, enc, chunk):
    n = 4 if os.environ.get('VERIF_TIER_EFFECTIVE','quick') == 'quick' else 5
    text = ''.join(PIECES[unwrap(sym.int(f'p{i}', 0, len(PIECES)-1))] for i in range(n))
    raw = text.encode('utf-8')
    if enc == 'gzip': data = gzip.compress(raw)
    elif enc == 'deflate':
        co = zlib.compressobj(wbits=-zlib.MAX_WBITS); data = co.compress(raw) + co.flush()
    else: data = raw
    try:
        got = list(HttpSource._byte_it_(enc, 'utf-8', chunk, BytesIO(data)))
    except Exception as e:
        sym.fail(f"reading {text!r} ({enc or 'identity'}, chunks of {chunk} bytes) raised {type(e).__name__}: {e}")
    sym.check(got == text.splitlines(), f"lines depend on delivery: {text!r} ({enc or 'identity'}, chunks of {chunk} bytes) gave {got!r}, whole text gives {text.splitlines()!r}")
    whole = HttpSource._byte_it_(enc, 'utf-8', None, BytesIO(data))
    sym.check(whole == text, "un-chunked read differs from the text")

# ---------------------------------------------------------------------------------------------------
STR_VOCAB = ['abc', 'a b', 'a,b', "it's", 'say "hi"', 'back\\slash', '50%', 'what?', '{x}', 'tab\there', 'é€', '']
NUMS = ['1', '2.5', '-3', '0']
NOMS = ['A', 'B', 'C D']

def q_arff(v, style):
    """write a string value in ARFF with the chosen quote style (None = bare when possible)"""
    need = v == '' or v == '?' or any(c in v for c in " ,'\"\\%{}\t")          # a '?' inside a longer token needs no quotes
    if style == 'bare' and not need: return v
    qc = "'" if style in ('single','bare') else '"'
    return qc + v.replace('\\','\\\\').replace(qc, '\\'+qc) + qc

def _classify_rt(v):
    info = v.get('info',{})
    if info.get('fmt') == 'arff_sparse' and ('reader rejected a file in the common dialect' in v['what'] or ('read as "\'' in v['what'] or "read as '\"" in v['what'])):
        return "arff_sparse: a quoted value containing a blank or comma makes the sparse row un-parsable (raises)"
    return f"{info.get('fmt')}:{v['what'].split(':')[0]}"[:130]

def roundtrip_params(tier):
    return [dict(fmt=f) for f in ('arff_dense','arff_sparse','csv','libsvm','manik')]

@obligation('C12','table_roundtrip', bounds={'quick':"tables of 2 rows x 3 columns (numeric, string from a 12-word vocabulary with , ' \" \\\\ % ? {} space tab unicode, nominal with a spaced level), one missing cell position or none; ARFF dense (keyword case, comment and blank lines, quote style, comma/comma-space/tab delimiter, blanks around nominal levels, optional date attribute with/without format) and sparse, CSV (RFC-4180 quoting, header), LibSVM and Manik",
                                             'thorough':"same"},
            functions=FUNCS, params=roundtrip_params, classify=_classify_rt, budget={'quick':100,'thorough':900})
def table_roundtrip(sym, fmt):
    sym.note(fmt=fmt)
    if fmt in ('arff_dense','arff_sparse'):
        # header variants (blanks around nominal levels as Weka/OpenML write them; optional 4th attribute: a date, bare or with its format);
        # the non-default variants are explored with the other dialect choices fixed, to bound the product
        HDR = [("{A,B,'C D'}", None), ("{A, B, 'C D'}", "date"), ("{ A,B,'C D' }", "date 'yyyy-MM-dd'"), ("{'A','B','C D' }", 'date "yyyy-MM-dd HH:mm"'), ("{'A', 'B' , 'C D'}", None)]
        nomdecl, date = sym.choice('header', HDR)
        if (nomdecl, date) == HDR[0]:
            kw = sym.choice('case', ['@attribute','@ATTRIBUTE','@Attribute'])
            comments = sym.flag('comments')
            qs = sym.choice('quote', ['bare','single','double'])
            delim = sym.choice('delim', [',', ', ', '\t']) if fmt == 'arff_dense' else ','
        else:
            kw, comments, qs, delim = '@attribute', False, 'single', ','
        miss = sym.choice('missing', [None,(0,0),(1,1),(0,2),(1,0)])
        svals = [STR_VOCAB[unwrap(sym.int(f's{r}', 0, len(STR_VOCAB)-1))] for r in range(2)]
        # sparse rows: the nominal level with a blank ('C D') runs into the known finding on every path, so it is only used on request
        spaced = True if fmt == 'arff_dense' else sym.flag('spaced_nominal')
        table = [[NUMS[r], svals[r], NOMS[(r+1) % 3] if spaced else NOMS[r]] for r in range(2)]
        common = delim == ',' and kw == '@attribute' and qs != 'double'
        lines = ['% a comment', '@relation t'] if comments else ['@relation t']
        lines += [f"{kw} num numeric", f"{kw} 'str col' string", f"{kw} nom {nomdecl}"] + ([f"{kw} seen {date}"] if date else []) + ['', '@data' if not comments else '@DATA']
        dvals = ["'2020-01-02'", "'2021-12-31 10:15'"]
        for r,row in enumerate(table):
            cells = []
            for c,v in enumerate(row):
                if miss == (r,c): cells.append('?')
                elif c == 0: cells.append(v)
                elif c == 1: cells.append(q_arff(v, qs))
                else: cells.append(q_arff(v, 'single' if ' ' in v else 'bare'))
            if date: cells.append(dvals[r])
            if fmt == 'arff_dense': lines.append(delim.join(cells))
            else:
                items = [f"{c} {v}" for c,v in enumerate(cells) if not (c == 0 and v == '0')]
                lines.append('{' + ','.join(items) + '}')
            if comments and r == 0: lines += ['% another comment', '']
        try:
            rows = list(ArffReader().filter(lines))
            got = []
            for row in rows:
                if fmt == 'arff_dense': got.append((list(row), bool(row.missing)))
                else: got.append((dict(row.items()), bool(row.missing)))
        except Exception as e:
            sym.check(not common or isinstance(e, CobaException) and False, f"reader rejected a file in the common dialect: {type(e).__name__}: {str(e)[:80]} :: {lines[-2:]!r}")
            return
        sym.check(len(got) == 2, f"{len(got)} rows parsed from 2 data lines :: {lines!r}")
        for r,(g,flag) in enumerate(got):
            exp = [None if miss == (r,c) else (float(v) if c == 0 else v) for c,v in enumerate(table[r])]
            if fmt == 'arff_dense': vals = g
            else: vals = [g.get('num', 0.0), g.get('str col'), g.get('nom')] + ([g.get('seen')] if date else [])
            if date: exp = exp + [dvals[r].strip("'")]
            sym.check(len(vals) == len(exp), f"row {r} has {len(vals)} cells, the file declares {len(exp)} attributes")
            nom = vals[2]
            if nom is not None and hasattr(nom, 'levels'):
                sym.check(list(nom.levels) == ['A','B','C D'] or (fmt == 'arff_sparse' and list(nom.levels) == ['0','A','B','C D']), f"nominal attribute declared as {nomdecl} read with levels {list(nom.levels)!r}")      # sparse ARFF adds its implicit default level '0'
            for c,(x,e) in enumerate(zip(vals,exp)):
                ok = (x is None) if e is None else (x == e if c == 0 else str(x) == e)
                sym.check(ok, f"cell ({r},{c}) read as {x!r} but the file says {e!r} :: line {lines[-(2-r) if not comments else -1]!r} quote={qs} delim={delim!r}")
            sym.check(flag == any(miss == (r,c) for c in range(3)), f"row {r}: missing flag {flag} but the row {'has' if miss and miss[0]==r else 'has no'} '?' cell :: delim={delim!r}")
    elif fmt == 'csv':
        header = sym.flag('header')
        svals = [STR_VOCAB[unwrap(sym.int(f's{r}', 0, len(STR_VOCAB)-1))] for r in range(2)]
        table = [[NUMS[r], svals[r], NOMS[r]] for r in range(2)]
        if sym.flag('all_empty_record'): table[sym.choice('which_empty', [0,1])] = ['','','']        # RFC-4180: ",," is a record of three empty cells, not a blank line
        def q(v): return '"' + v.replace('"','""') + '"' if any(c in v for c in ',"\n') or v == '' else v
        lines = ([','.join(['n','s','m'])] if header else []) + [','.join(q(v) for v in row) for row in table]
        lines = lines[:1] + [''] + lines[1:] if sym.flag('blank') else lines
        rows = list(CsvReader(has_header=header).filter(lines))
        sym.check(len(rows) == 2, f"csv: {len(rows)} rows from 2 records")
        for r,row in enumerate(rows):
            exp = [v.strip() if False else v for v in table[r]]
            sym.check(list(row) == exp, f"csv row {r}: read {list(row)!r} but the file says {exp!r}")
            if header: sym.check(row['s'] == exp[1], "csv: header access")
    else:
        labels = [sym.choice(f'l{r}', ['1','a,b','x']) for r in range(2)]
        feats = [sym.choice(f'f{r}', [{}, {1:'2'}, {1:'0.5', 7:'-3'}]) for r in range(2)]
        lines = [(labels[r] + ''.join(f" {k}:{v}" for k,v in feats[r].items())) for r in range(2)]
        if sym.flag('blank'): lines.insert(1, '')
        if fmt == 'manik': lines = ['2 8 3'] + lines
        rows = list((LibsvmReader() if fmt == 'libsvm' else ManikReader()).filter(lines))
        sym.check(len(rows) == 2, f"{fmt}: {len(rows)} examples from 2 lines {lines!r}")
        for r,(row,lab) in enumerate(rows):
            sym.check(dict(row) == {k: float(v) for k,v in feats[r].items()}, f"{fmt} example {r}: features {dict(row)!r} but the file says {feats[r]!r}")
            sym.check(list(lab) == labels[r].split(','), f"{fmt} example {r}: labels {lab!r} but the file says {labels[r].split(',')!r}")

LINES = ['plain', 'trailing space ', 'tab\tinside', 'trailing tab\t', '', ' leading', 'é€\U0001F600', '{"json":[1,2]}', 'a,b,"c"', 'back\\slash']

@obligation('C12','disk_roundtrip', bounds="3 lines from a 10-line vocabulary (trailing/leading blanks, tabs, empty line, non-ASCII, json, csv, backslash) written with DiskSink (all at once or one write per line; DiskSink batch size None,1,2,3) and read back with DiskSource, plain and .gz",
            functions=FUNCS, params=lambda tier: [dict(gz=g, batch=b, size=z) for g in (False,True) for b in ('once','each') for z in (None,1,2,3)], classify=_classify)
def disk_roundtrip(sym, gz, batch, size=None):
    lines = [LINES[unwrap(sym.int(f'l{i}', 0, len(LINES)-1))] for i in range(3)]
    d = tempfile.mkdtemp(prefix='c12_d_')
    try:
        f = os.path.join(d, 'x.log.gz' if gz else 'x.log')
        sink = DiskSink(f) if size is None else DiskSink(f, batch=size)
        if batch == 'once': sink.write(lines)
        else:
            for l in lines: sink.write(l)
        got = list(DiskSource(f).read())
        sym.check(got == lines, f"DiskSource read {got!r} but DiskSink was given {lines!r}")
    finally:
        shutil.rmtree(d, ignore_errors=True)

"""C13 Lazy row views are indistinguishable from the eager table they describe."""
import itertools
from vf.run import obligation
from symx import is_sym

from coba.pipes.rows import (LazyDense, LazySparse, HeadRows, EncodeRows, DropRows, LabelRows, HeadDense, EncodeDense,
                             KeepDense, DropOne, LabelDense, LabelSparse, DropSparse, EncodeSparse, HeadSparse)

EXPLANATION = ("Row pipelines built from the real HeadRows/EncodeRows/DropRows/LabelRows (+LazyDense/LazySparse bases) run on symbolic "
               "integer cells with affine encoders (encoded values stay symbolic); a solver-chosen sequence of two accesses (symbolic "
               "position, header name, iteration, len, ==, copy, feats/label) is compared with an eager list/dict model by z3-decided equalities.")
ASSUMPTIONS = ["cells are ints; encoders are affine x->x+c (one encoder per pipeline also answers '0' for the sparse default-zero detection)",
               "row predicates of DropRows see the incoming row (before columns are dropped), as documented by DropRows.filter's order",
               "negative / out-of-range positions, EncodeCatRows and string cells ('?' handling of ARFF) outside this obligation"]
FUNCS = ['coba.pipes.rows:LazyDense','coba.pipes.rows:LazySparse','coba.pipes.rows:HeadDense','coba.pipes.rows:HeadSparse','coba.pipes.rows:HeadRows',
         'coba.pipes.rows:EncodeDense','coba.pipes.rows:EncodeSparse','coba.pipes.rows:EncodeRows','coba.pipes.rows:DropOne','coba.pipes.rows:KeepDense',
         'coba.pipes.rows:DropSparse','coba.pipes.rows:DropRows','coba.pipes.rows:LabelDense','coba.pipes.rows:LabelSparse','coba.pipes.rows:LabelRows',
         'coba.primitives:Dense_','coba.primitives:Sparse_']

NAMES = ['A','B','C','D','E']

def aff(c):
    return lambda x, c=c: x + c

def aff0(c):
    # also answers the string '0' (used by EncodeRows to detect encoders with a non-zero default)
    return lambda x, c=c: c if (isinstance(x,str) and x == '0') else x + c

STAGE_ORDERS = [(), ('H',), ('E',), ('D',), ('H','E'), ('H','D'), ('E','H'), ('D','H'), ('E','D'), ('D','E'),
                ('H','E','D'), ('H','D','E'), ('E','H','D'), ('D','H','E'), ('D','E','H'), ('E','D','H')]

def dense_params(tier):
    ws = (3,) if tier=='quick' else (3,4)
    return [dict(w=w, order=o, base=b) for w in ws for o in range(len(STAGE_ORDERS)) for b in ('list','tuple','lazy','lazy_enc_hdr')]

def _seq_equal(sym, got, exp, what):
    got = list(got)
    sym.check(len(got) == len(exp), f"{what}: length {len(got)} != {len(exp)}")
    for g,e in zip(got,exp):
        sym.check(g == e, f"{what}: value differs")

@obligation('C13','dense', bounds={'quick':"2 rows x width 3; base in {list,tuple,LazyDense loader,LazyDense+encoders+headers}; every order of <=3 distinct stages from {HeadRows,EncodeRows(seq|map by index|map by name),DropRows(index set|name set, optional row predicate)} then optional LabelRows(index|name); all accesses in sequence (forward order on the first row, reverse order on the last row) from {row[i] (symbolic i), row[name], list, len, ==, copy, feats, label}",
                                   'thorough':"width 3 and 4"},
            functions=FUNCS, params=dense_params, budget={'quick':80,'thorough':900})
def dense(sym, w, order, base):
    stages = STAGE_ORDERS[order]
    # ---- structure choices first (task splitting) ----
    enc_kind  = sym.choice('enc_kind', ['seq','map_idx','map_name']) if 'E' in stages else None
    drop_kind = sym.choice('drop_kind', ['i0','i1','i02','nA','nBC','mixed']) if 'D' in stages else None
    pred_kind = sym.choice('pred', ['none','first_pos','first_eq_last']) if 'D' in stages else 'none'
    label     = sym.choice('label', ['none','i0','ilast','name'])
    rows = [[sym.int(f'c{r}_{j}', -3, 3) for j in range(w)] for r in range(2)]
    # ---- eager model ----
    E = [dict(vals=list(r), hdr=None, alive=True) for r in rows]
    # ---- real pipeline ----
    if base == 'list':    R = [list(r) for r in rows]
    elif base == 'tuple': R = [tuple(r) for r in rows]
    elif base == 'lazy':  R = [LazyDense((lambda r=r: list(r))) for r in rows]
    else:
        encs = [aff(100*(j+1)) for j in range(w)]
        hdrs = {n:j for j,n in enumerate(NAMES[:w])}
        R = [LazyDense((lambda r=r: list(r)), encs, hdrs, False) for r in rows]
        for e in E:
            e['vals'] = [v+100*(j+1) for j,v in enumerate(e['vals'])]; e['hdr'] = list(NAMES[:w])
    for st in stages:
        if not E: break
        cur_w = len(E[0]['vals']); hdr = E[0]['hdr']
        if st == 'H':
            names = ['P','Q','R','S','T'][:cur_w]
            R = list(HeadRows(names).filter(R))
            for e in E: e['hdr'] = list(names)
        elif st == 'E':
            if enc_kind == 'map_name' and not hdr: sym.assume(False)
            if enc_kind == 'seq':
                fns = [aff(10*(j+1)) for j in range(cur_w)]
                R = list(EncodeRows(fns).filter(R))
                for e in E: e['vals'] = [v+10*(j+1) for j,v in enumerate(e['vals'])]
            elif enc_kind == 'map_idx':
                R = list(EncodeRows({0:aff(10), cur_w-1:aff(30)}).filter(R))
                for e in E:
                    if cur_w == 1: e['vals'][0] = e['vals'][0]+30      # {0:+10, 0:+30} collapses to {0:+30}
                    else:
                        e['vals'][0] = e['vals'][0]+10; e['vals'][cur_w-1] = e['vals'][cur_w-1]+30
            else:
                R = list(EncodeRows({hdr[0]:aff(10), hdr[-1]:aff(30)}).filter(R))
                for e in E:
                    if len(hdr) == 1: e['vals'][0] = e['vals'][0]+30
                    else:
                        e['vals'][0] = e['vals'][0]+10; e['vals'][-1] = e['vals'][-1]+30
        elif st == 'D':
            if drop_kind in ('nA','nBC','mixed') and not hdr: sym.assume(False)
            if cur_w < 3: sym.assume(False)
            cols = {'i0':[0], 'i1':[1], 'i02':[0,2]}.get(drop_kind)
            if cols is None:
                cols = {'nA':[hdr[0]], 'nBC':[hdr[1],hdr[2]], 'mixed':[hdr[0],2]}[drop_kind]
            pred = {'none':None, 'first_pos': (lambda r: r[0] > 0), 'first_eq_last': (lambda r, k=cur_w-1: r[k] == r[0])}[pred_kind]
            R = list(DropRows(cols, pred).filter(R))
            dropi = set()
            for c in cols:
                dropi.add(c if isinstance(c,int) else hdr.index(c))
            for e in E:
                if not e['alive']: continue
                if pred is not None and pred(e['vals']): e['alive'] = False; continue
                e['vals'] = [v for j,v in enumerate(e['vals']) if j not in dropi]
                if e['hdr']: e['hdr'] = [h for j,h in enumerate(e['hdr']) if j not in dropi]
            E = [e for e in E if e['alive']]
    E = [e for e in E if e['alive']]
    sym.check(len(R) == len(E), "number of rows after DropRows predicate")
    if not E: return
    cur_w = len(E[0]['vals']); hdr = E[0]['hdr']
    lab_i = None
    if label != 'none':
        if label == 'name' and not hdr: sym.assume(False)
        lab_i = {'i0':0, 'ilast':cur_w-1, 'name':cur_w//2}[label]
        R = list(LabelRows(hdr[lab_i] if label=='name' else lab_i, 'c').filter(R))
    sym.note(pipeline=f"base={base} stages={stages} enc={enc_kind} drop={drop_kind} pred={pred_kind} label={label}")
    kinds = ['idx','list','len','eq','copy'] + (['name'] if hdr else []) + (['feats','label'] if lab_i is not None else [])
    def access(kind, row, e, tag):
        vals = e['vals']
        if kind == 'idx':
            i = sym.int(f'i{tag}', 0, len(vals)-1)
            got = row[i]
            exp = vals[i]
            sym.check(got == exp, f"row[i] differs from the eager value ({tag})")
        elif kind == 'name':
            for k,h in enumerate(hdr):
                sym.check(row[h] == vals[k], f"row[name] differs from the eager value ({tag})")
        elif kind == 'list':
            _seq_equal(sym, list(row), vals, f"list(row) ({tag})")
        elif kind == 'len':
            sym.check(len(row) == len(vals), f"len(row) ({tag})")
        elif kind == 'eq':
            mk = tuple if isinstance(row, tuple) else list      # a bare tuple (no coba view at all) only equals a tuple
            sym.check(bool(row == mk(vals)), f"row == eager list ({tag})")
            sym.check(not bool(row == mk(list(vals)+[0])), f"row == longer list ({tag})")
        elif kind == 'copy':
            _seq_equal(sym, row.copy() if hasattr(row,'copy') and not isinstance(row,tuple) else list(row), vals, f"row.copy() ({tag})")
        elif kind == 'feats':
            fe = [v for j,v in enumerate(vals) if j != lab_i]
            f = row.feats
            _seq_equal(sym, list(f), fe, f"list(row.feats) ({tag})")
            sym.check(len(f) == len(fe), f"len(row.feats) ({tag})")
            if fe:
                i = sym.int(f'f{tag}', 0, len(fe)-1)
                sym.check(f[i] == fe[i], f"row.feats[i] ({tag})")
        elif kind == 'label':
            sym.check(row.label == vals[lab_i], f"row.label ({tag})")
            ft, lb, tp = row.labeled
            sym.check(lb == vals[lab_i] and tp == 'c', f"row.labeled ({tag})")
    # every access after every other one: forward order on the first row, reverse order on the last row
    for ri,(row,e) in enumerate(zip(R,E)):
        ks = kinds if ri == 0 else list(reversed(kinds))
        for n,k in enumerate(ks):
            access(k if not (k=='idx' and ri>0) else 'list', row, e, f'r{ri}#{n}:{k}')

# ---------------------------------------------------------------------------------------------------
SP_ORDERS = [(), ('H',), ('E',), ('D',), ('H','E'), ('H','D'), ('E','D'), ('D','E'), ('H','E','D'), ('H','D','E')]

def sparse_params(tier):
    return [dict(order=o, base=b) for o in range(len(SP_ORDERS)) for b in ('dict','lazy','lazy_full','lazy_full_loaded')]

def _map_equal(sym, got, exp, what):
    sym.check(set(got.keys()) == set(exp.keys()), f"{what}: keys {sorted(got.keys())} != {sorted(exp.keys())}")
    for k in exp:
        if k in got: sym.check(got[k] == exp[k], f"{what}: value differs")

@obligation('C13','sparse', bounds="2 rows over raw keys {k0,k1,k2} (presence enumerated; >=1 key); base in {dict, LazySparse loader, LazySparse+encoders+not-sparse set+header maps}; stage orders over {HeadRows(map),EncodeRows(map, one encoder with non-zero default),DropRows(key set, optional predicate)} then optional LabelRows(key present or absent); all accesses in sequence (forward order on the first row, reverse order on the last row) from {row[k], keys, items, len, ==, copy, iter, feats, label}",
            functions=FUNCS, params=sparse_params, budget={'quick':80,'thorough':900})
def sparse(sym, order, base):
    stages = SP_ORDERS[order]
    pred_kind = sym.choice('pred', ['none','has_k0_pos']) if 'D' in stages else 'none'
    drop_kind = sym.choice('drop_kind', ['first','last','two']) if 'D' in stages else None
    label     = sym.choice('label', ['none','first','absent'])
    pres      = [[sym.flag(f'p{r}_{j}') for j in range(3)] for r in range(2)]
    raw = []
    for r in range(2):
        d = {}
        for j in range(3):
            if pres[r][j]: d[f'k{j}'] = sym.int(f'v{r}_{j}', -3, 3)
        raw.append(d)
    sym.assume(all(len(d) >= 1 for d in raw) and 'k0' in raw[0])
    E = [dict(d) for d in raw]
    universe = ['k0','k1','k2']          # current key names of the three columns
    if base == 'dict':   R = [dict(d) for d in raw]
    elif base == 'lazy': R = [LazySparse((lambda d=d: dict(d))) for d in raw]
    else:
        enc = {'k0':aff0(0), 'k1':aff0(200), 'k2':aff0(0)}; nsp = {'k1'}
        fwd = {'A':'k0','B':'k1','C':'k2'}; inv = {v:k for k,v in fwd.items()}
        sources = [dict(d) for d in raw]
        R = [LazySparse((lambda d=d: dict(d)) if base == 'lazy_full' else src, enc, nsp, fwd, inv) for d,src in zip(raw,sources)]
        newE = []
        for d in E:
            n = {}
            for k,v in d.items(): n[inv[k]] = v + (200 if k=='k1' else 0)
            if 'k1' not in d: n['B'] = 200
            newE.append(n)
        E = newE; universe = ['A','B','C']
    alive = [True,True]
    for st in stages:
        if st == 'H':
            names = ['P','Q','R']
            mp = dict(zip(names, universe))
            R = list(HeadRows(mp).filter(R))
            inv = {v:k for k,v in mp.items()}
            E = [{inv[k]:v for k,v in d.items()} for d in E]
            universe = names
        elif st == 'E':
            enc = {universe[0]:aff0(10), universe[2]:aff0(0)}
            falsy = sym.flag('falsy_default')          # a third encoder whose answer for the implicit '0' is falsy but is not the number zero: the column is not sparse either
            if falsy: enc[universe[1]] = (lambda x: () if (isinstance(x,str) and x == '0') else x)
            R = list(EncodeRows(enc).filter(R))
            newE = []
            for d in E:
                n = dict(d)
                if universe[0] in n: n[universe[0]] = n[universe[0]]+10
                else: n[universe[0]] = 10           # non-zero default of a not-sparse encoder
                if falsy and universe[1] not in n: n[universe[1]] = ()
                newE.append(n)
            E = newE
        elif st == 'D':
            cols = {'first':[universe[0]], 'last':[universe[2]], 'two':[universe[0],universe[1]]}[drop_kind]
            k0 = universe[0]
            def pred_real(r, k0=k0):
                try: return r[k0] > 0
                except KeyError: return False
            pred = None if pred_kind == 'none' else pred_real
            R = list(DropRows(cols, pred).filter(R))
            newE, j = [], 0
            for i,d in enumerate(E):
                if not alive[i]: newE.append(d); continue
                if pred is not None and (k0 in d) and (d[k0] > 0): alive[i] = False; newE.append(d); continue
                newE.append({k:v for k,v in d.items() if k not in cols})
            E = newE
    E = [d for d,a in zip(E,alive) if a]
    sym.check(len(R) == len(E), "number of rows after DropRows predicate")
    if not E: return
    lab = None
    if label != 'none':
        lab = universe[2] if label == 'first' else 'ZZ'
        R = list(LabelRows(lab, 'c').filter(R))
    sym.note(pipeline=f"base={base} stages={stages} drop={drop_kind} pred={pred_kind} label={label}")
    kinds = ['get','keys','items','len','eq','copy','iter'] + (['feats','label'] if lab is not None else [])
    def access(kind, row, d, tag):
        full = dict(d)
        if lab is not None and lab not in full: full[lab] = 0
        if kind == 'get':
            for k,v in full.items(): sym.check(row[k] == v, f"row[key] ({tag})")
        elif kind == 'keys':  sym.check(set(row.keys()) == set(full), f"keys() ({tag}): {sorted(row.keys())} != {sorted(full)}")
        elif kind == 'iter':  sym.check(set(iter(row)) == set(full), f"iter(row) ({tag})")
        elif kind == 'items': _map_equal(sym, dict(row.items()), full, f"dict(row.items()) ({tag})")
        elif kind == 'len':   sym.check(len(row) == len(full), f"len(row) ({tag}): {len(row)} != {len(full)}")
        elif kind == 'eq':
            sym.check(bool(row == dict(full)), f"row == eager dict ({tag})")
            other = dict(full); other['__x'] = 1
            sym.check(not bool(row == other), f"row == bigger dict ({tag})")
        elif kind == 'copy':  _map_equal(sym, row.copy(), full, f"row.copy() ({tag})")
        elif kind == 'feats':
            fe = {k:v for k,v in d.items() if k != lab}
            f = row.feats
            _map_equal(sym, dict(f.items()), fe, f"dict(row.feats.items()) ({tag})")
            sym.check(set(f.keys()) == set(fe), f"row.feats.keys() ({tag})")
            sym.check(len(f) == len(fe), f"len(row.feats) ({tag})")
            for k,v in fe.items(): sym.check(f[k] == v, f"row.feats[key] ({tag})")
        elif kind == 'label':
            sym.check(row.label == full[lab], f"row.label ({tag})")
    for ri,(row,d) in enumerate(zip(R,E)):
        ks = kinds if ri == 0 else list(reversed(kinds))
        for n,k in enumerate(ks):
            access(k, row, d, f'r{ri}#{n}:{k}')
    if base == 'lazy_full_loaded':
        for src,d in zip(sources, raw):
            sym.check(set(src) == set(d) and all(src[k] is d[k] or src[k] == d[k] for k in d), "accessing a view modified the mapping it was built over")

# ---------------------------------------------------------------------------------------------------
from coba.pipes.readers import ArffReader

@obligation('C13','lazy_arff', bounds="lazy ARFF rows from the real ArffReader: 3 attributes (numeric, nominal {X,Y,Z}, numeric|string), 2 data rows, each cell chosen from {value,'?'}; dense and sparse ARFF; accesses by position, header name, iteration, len, ==, copy in forward and reverse order",
            functions=FUNCS+['coba.pipes.readers:ArffReader'], params=lambda tier: [dict(fmt=f, third=t) for f in ('dense','sparse') for t in ('numeric','string')])
def lazy_arff(sym, fmt, third):
    cells = []
    for r in range(2):
        a = sym.choice(f'a{r}', ['1','?','0',''] if fmt=='dense' else ['1','?',None])       # '': an empty dense field (read as a missing value, though the row is not flagged)
        b = sym.choice(f'b{r}', ['X','?','Z'] if fmt=='dense' else ['Y','?',None])
        c = sym.choice(f'c{r}', (['3','?'] if third=='numeric' else ['s','?']) + ([] if fmt=='dense' else [None]))
        cells.append((a,b,c))
    lines = ["@relation t","@attribute a numeric","@attribute b {X,Y,Z}",f"@attribute c {third}","@data"]
    for a,b,c in cells:
        if fmt == 'dense': lines.append(f"{a},{b},{c}")
        else: lines.append("{"+",".join(f"{i} {v}" for i,v in enumerate((a,b,c)) if v is not None)+"}")
    rows = list(ArffReader().filter(lines))
    sym.check(len(rows) == 2, "row count")
    def expect(j, txt):
        if txt == '?' or txt == '': return ('none',)
        if txt is None:   # absent in a sparse row: default zero / first nominal level
            return ('num',0.0) if j != 1 and not (j==2 and third=='string') else ('default',)
        if j == 0 or (j == 2 and third == 'numeric'): return ('num', float(txt))
        return ('str', txt)
    def matches(v, e):
        if e[0] == 'none': return v is None
        if e[0] == 'num': return v == e[1]
        if e[0] == 'str': return str(v) == e[1]
        return True
    for ri,(row,cs) in enumerate(zip(rows,cells)):
        exp = [expect(j,t) for j,t in enumerate(cs)]
        names = ['a','b','c']
        def acc_pos():
            if fmt == 'dense':
                for j in range(3): sym.check(matches(row[j], exp[j]), f"row[{j}] of {cs} gave {row[j]!r}")
        def acc_name():
            for j,nm in enumerate(names):
                if fmt == 'dense' or cs[j] is not None:
                    sym.check(matches(row[nm], exp[j]), f"row['{nm}'] of {cs} gave {row[nm]!r}")
        def acc_iter():
            if fmt == 'dense':
                vals = list(row)
                sym.check(len(vals) == 3 and all(matches(v,e) for v,e in zip(vals,exp)), f"list(row) of {cs} gave {vals!r}")
            else:
                d = dict(row.items())
                for j,nm in enumerate(names):
                    if cs[j] is not None: sym.check(nm in d and matches(d[nm], exp[j]), f"items() of {cs} gave {d!r}")
                sym.check(set(d) == set(row.keys()), f"items()/keys() disagree for {cs}: {sorted(d)} vs {sorted(row.keys())}")
                sym.check(len(row) == len(d), f"len(row) {len(row)} != number of items {len(d)} for {cs}")
        def acc_eq():
            sym.check(bool(row == (list(row) if fmt=='dense' else dict(row.items()))), f"row == its own materialisation for {cs}")
        def acc_missing():
            sym.check(bool(row.missing) == any(t == '?' for t in cs), f"row.missing flag for {cs}")
        accs = [acc_pos, acc_name, acc_iter, acc_eq, acc_missing]
        for f in (accs if ri == 0 else reversed(accs)): f()

# ---------------------------------------------------------------------------------------------------
from coba.pipes.rows import EncodeCatRows
from coba.primitives import Categorical
import copy as _copy
_LV = ['u','v','w']

def _ref_cat(v, tipe):
    """eager reference of EncodeCatRows on plain lists/dicts"""
    if isinstance(v, Categorical):
        if tipe == 'string': return str(v)
        return tuple(1 if l == str(v) else 0 for l in v.levels)          # the one-hot vector
    if isinstance(v, (list,tuple)):
        out = []
        for x in v:
            if isinstance(x, Categorical) and tipe == 'onehot': out.extend(_ref_cat(x, 'onehot_tuple'))
            else: out.append(_ref_cat(x, tipe))
        return out
    if isinstance(v, dict):
        out = {}
        for k,x in v.items():
            if isinstance(x, Categorical) and tipe == 'onehot':
                for i,b in enumerate(_ref_cat(x, 'onehot_tuple')):
                    if b: out[f'{k}_{i}'] = b
            else: out[k] = _ref_cat(x, tipe)
        return out
    return v

def _plain(v):
    if isinstance(v, Categorical): return ('cat', str(v), tuple(v.levels))
    if isinstance(v, (list,tuple)): return [_plain(x) for x in v]
    if isinstance(v, dict) or hasattr(v,'items'): return {k:_plain(x) for k,x in dict(v.items()).items()}
    return v

@obligation('C13','cat_rows', bounds="EncodeCatRows('onehot'|'onehot_tuple'|'string'|None) over 2 rows; dense rows [cat, int, [cat, int]] / [int, cat] (values, tuples and lists), sparse rows {'a':cat,'bb':int,'ns':{'c':cat}} / {'key':cat}; every categorical's level (3 levels) solver-enumerated; two encodings applied one after the other to the SAME source rows (which must stay untouched); results compared with an eager encoding of plain lists and dicts",
            functions=['coba.pipes.rows:EncodeCatRows.filter','coba.pipes.rows:EncodeCatRows._encode_collection','coba.pipes.rows:EncodeCatRows._encode_values'],
            params=lambda tier: [dict(shape=s, t1=a, t2=b) for s in ('dense_nested','dense_flat','dense_tuple','sparse_nested','sparse_flat','values') for a in ('onehot','onehot_tuple','string') for b in ('string','onehot',None)])
def cat_rows(sym, shape, t1, t2):
    cat = lambda name: Categorical(sym.choice(name, _LV), _LV)
    rows = []
    for r in range(2):
        if shape == 'dense_nested':  rows.append([cat(f'c{r}a'), 5+r, [cat(f'c{r}b'), 7]])
        elif shape == 'dense_flat':  rows.append([3+r, cat(f'c{r}a')])
        elif shape == 'dense_tuple': rows.append((cat(f'c{r}a'), 3+r, cat(f'c{r}b')))
        elif shape == 'sparse_nested': rows.append({'a': cat(f'c{r}a'), 'bb': 5+r, 'ns': {'c': cat(f'c{r}b')}})
        elif shape == 'sparse_flat': rows.append({'key': cat(f'c{r}a'), 'z': r})
        else: rows.append(cat(f'c{r}a'))
    snap = [_plain(r) for r in rows]
    for step,tipe in enumerate((t1, t2)):
        got = list(EncodeCatRows(tipe).filter(rows if sym.flag(f'list{step}') else iter(rows)))
        sym.check(len(got) == 2, f"EncodeCatRows({tipe!r}): {len(got)} rows for 2")
        for r,(g,src) in enumerate(zip(got, rows)):
            if tipe is None: exp = _plain(src)
            elif isinstance(src, Categorical): exp = _plain(_ref_cat(src, tipe))
            else: exp = _plain(_ref_cat(src, tipe))
            sym.check(_plain(g) == (list(exp) if isinstance(exp, tuple) else exp) or _plain(g) == exp, f"EncodeCatRows({tipe!r}) step {step} row {r} ({shape}): got {_plain(g)!r}, the eager encoding of {snap[r]!r} is {exp!r}")
        sym.check([_plain(r) for r in rows] == snap, f"EncodeCatRows({tipe!r}) changed the rows it was given ({shape}): {[_plain(r) for r in rows]!r} were {snap!r}")


# ---------------------------------------------------------------------------------------------------
@obligation('C13','filter_reuse', bounds="ONE filter object (DropRows by index / by name, EncodeRows by index / by name, LabelRows by name, HeadRows) applied to a first table and then to a second table with another width and header order: the second result equals that of a fresh filter object on the second table, by position, by name and by length",
            functions=FUNCS, params=lambda tier: [dict(f=f) for f in ('drop_idx','drop_name','encode_idx','encode_name','label_name','head')])
def filter_reuse(sym, f):
    mk = {'drop_idx': lambda: DropRows([1]), 'drop_name': lambda: DropRows(['B']), 'encode_idx': lambda: EncodeRows({1: aff(10)}), 'encode_name': lambda: EncodeRows({'B': aff(10)}),
          'label_name': lambda: LabelRows('B','c'), 'head': lambda: HeadRows(['X','Y','Z'])}[f]
    def table(which):
        hdr = {'t1': {'A':0,'B':1,'C':2}, 't2': {'B':0,'D':1,'A':2,'C':3}}[which]
        w = len(hdr)
        rows = [[sym.int(f'{which}r{r}c{c}', -1, 1) for c in range(w)] for r in range(2)]
        if f == 'head': return [list(r) for r in rows]
        return [HeadDense(list(r), dict(hdr)) for r in rows]
    first = sym.choice('first', ['t1','t2']); second = 't2' if first == 't1' else 't1'
    flt = mk()
    list(flt.filter(table(first)))
    t = table(second)
    got = list(flt.filter([HeadDense(list(r), dict(r.headers)) if f != 'head' else list(r) for r in t]))
    exp = list(mk().filter([HeadDense(list(r), dict(r.headers)) if f != 'head' else list(r) for r in t]))
    sym.check(len(got) == len(exp), "row count")
    for g,e in zip(got,exp):
        sym.check(len(g) == len(e) and list(g) == list(e), f"{f}: second use of the filter object gives {list(g)}, a fresh object gives {list(e)}")
        if hasattr(e,'headers') and e.headers:
            sym.check(getattr(g,'headers',None) == e.headers and all(g[k] == e[k] for k in e.headers), f"{f}: header access differs on the second use ({getattr(g,'headers',None)} vs {e.headers})")
        if f == 'label_name': sym.check(g.label == e.label and list(g.feats) == list(e.feats), f"{f}: label/feats differ on the second use")

"""C02 Interrupted experiments resume without losing or repeating work."""
import os, tempfile, shutil, json, gzip
from vf.run import obligation
from symx import unwrap
from vf import exp
from coba.results import Result
from coba.context import CobaContext

EXPLANATION = ("An experiment is run once to a result file giving log bytes L; the crash point k (a z3 integer over the stated offsets of L) selects the prefix L[:k] a killed run "
               "leaves on disk; the same freshly constructed experiment is run again on that file (in-process and through the C01 worker emulation with maxtasksperchunk in {0,1}) with "
               "instrumented components counting evaluations: the final Result must equal the uninterrupted one, no triple recorded in the prefix may be evaluated again, every id "
               "must occur once, and a torn final record must never make the file unusable.")
ASSUMPTIONS = ["crash model = byte prefix of the log (sector reordering, crashes of single workers outside); the crash offset is enumerated exhaustively by the solver within: every record boundary, +-1 byte around each, every byte of the last interaction record (quick); every byte of the file (thorough)",
               "4 program shapes from the C01 menu (cross product, shared chunk prefix with shuffle fan-out, tuple list with shared learner objects and custom evaluators, one environment x two evaluators)",
               ".gz files: crash offsets range over the compressed bytes"]
FUNCS = ['coba.experiments.core:Experiment.run','coba.experiments.process:MakeTasks.read','coba.results.core:Result.from_file','coba.results.core:TransactionDecode.filter',
         'coba.results.core:TransactionEncode.filter','coba.results.core:TransactionResult.filter','coba.pipes.sinks:DiskSink.write','coba.pipes.sources:DiskSource.read']

PROGS = ['cross','custom_chunked','tuples_shared','one_env_two_evals']
EVALS = []     # (environment name/params, learner family) of every evaluation performed, recorded by instrumentation

def _instrument():
    """count evaluations through ProcessTasks (module-level hook on SafeEvaluator.evaluate)"""
    import coba.experiments.process as P
    if getattr(P, '_vf_hooked', False): return
    orig = P.SafeEvaluator.evaluate
    def evaluate(self, environment, learner):
        EVALS.append(1)
        return orig(self, environment, learner)
    P.SafeEvaluator.evaluate = evaluate
    P._vf_hooked = True

def _fname(gz): return {False:'res.log', True:'res.log.gz', 'mid':'res.gz.bak'}[gz]      # 'mid': a gzip log whose name does not END in .gz

def full_log(prog, gz, seed=1):
    d = tempfile.mkdtemp(prefix='c02_')
    f = os.path.join(d, _fname(gz))
    res = exp.run_real(prog, result_file=f, seed=seed, processes=1, maxchunksperchild=0, maxtasksperchunk=0)
    L = open(f,'rb').read()
    shutil.rmtree(d, ignore_errors=True)
    return L, exp.comparable(res)

def gz_members(L):
    """end offsets of the gzip members of L (DiskSink writes one member per record)"""
    import zlib
    ends, pos = [], 0
    while pos < len(L):
        d = zlib.decompressobj(31); d.decompress(L[pos:]); pos = len(L) - len(d.unused_data); ends.append(pos)
    return ends

def offsets(L, gz, tier):
    if gz or tier == 'thorough':
        if tier == 'thorough' or len(L) < 400: return list(range(len(L)+1))
        return sorted(set(list(range(0,len(L)+1,7))+[len(L)-1,len(L)]+gz_members(L)))          # every member boundary (a run killed between records) + every 7th byte
    bounds = [i+1 for i,b in enumerate(L) if b == 10]
    offs = {0, len(L)}
    for b in bounds: offs.update({b-1, b, b+1})
    last_I = max((b for b in [0]+bounds[:-1] if L[b:b+4] == b'["I"'), default=0)
    offs.update(range(last_I, len(L)+1))
    return sorted(o for o in offs if 0 <= o <= len(L))

def n_complete_I(prefix, gz):
    """number of complete interaction records in the prefix (as the file's own reader sees them)"""
    try:
        text = gzip.decompress(prefix).decode() if gz else prefix.decode(errors='ignore')
    except Exception:
        # a truncated gzip stream: count what a tolerant decompressor gets
        import zlib
        out, data = b'', prefix
        while data:
            do = zlib.decompressobj(16+zlib.MAX_WBITS)
            try: out += do.decompress(data)
            except Exception: break
            if not do.eof: break
            data = do.unused_data
        text = out.decode(errors='ignore')
    n = 0
    for line in text.split('\n'):
        try:
            r = json.loads(line)
            if r and r[0] == 'I': n += 1
        except Exception: pass
    return n

def _classify(v):
    w = v['what']
    gz = v.get('info',{}).get('gz')
    if gz and not v.get('info',{}).get('at_member_end') and ('EOFError' in w or 'BadGzipFile' in w or 'Error -3' in w or 'zlib' in w): return "gz result file cut inside a compressed record: unreadable"
    k = v.get('info',{}).get('k', 99)
    if not isinstance(k, int): k = 99
    if (not gz and k < 13) or (k == 0): return "result file cut before the end of its version line (or left empty): cannot be resumed"
    return w.split(':')[0][:110]

def params(tier):
    return [dict(prog=p, gz=g, mode=m) for p in PROGS for g in (False,True) for m in ('inproc','emu0','emu1')] + [dict(prog=PROGS[0], gz='mid', mode='inproc'), dict(prog=PROGS[2], gz='mid', mode='emu1')] + [dict(prog='chunk_shuffle', gz=False, mode=m, seed=0.123456789) for m in ('inproc','emu1')]   # an experiment seed the log cannot hold exactly (floats are written with 5 decimals)

@obligation('C02','resume', bounds={'quick':"4 program shapes x {plain,.gz} (+ a gzip log named res.gz.bak for two shapes) x re-run mode {in-process, emulated workers mt=0, mt=1}; crash offset k (z3 int) over every record boundary, +-1 byte, and every byte of the last interaction record (plain) / every gzip member boundary and every 7th compressed byte (.gz)",
                                    'thorough':"every byte of every log"},
            functions=FUNCS, params=params, classify=_classify, budget={'quick':100,'thorough':3000})
def resume(sym, prog, gz, mode, seed=1):
    _instrument()
    tier = os.environ.get('VERIF_TIER_EFFECTIVE','quick')
    L, ref = full_log(prog, gz, seed)
    offs = offsets(L, gz, tier)
    ki = sym.int('k_index', 0, len(offs)-1)
    k = offs[unwrap(ki)]
    sym.note(k=k, total=len(L), gz=gz, prog=prog, at_member_end=bool(gz) and k in gz_members(L))
    d = tempfile.mkdtemp(prefix='c02_')
    try:
        f = os.path.join(d, _fname(gz))
        if k > 0 or sym.flag('empty_file'): open(f,'wb').write(L[:k])
        done_before = n_complete_I(L[:k], gz)
        total = n_complete_I(L, gz)
        del EVALS[:]
        try:
            if mode == 'inproc': res = exp.run_real(prog, result_file=f, seed=seed, processes=1, maxchunksperchild=0, maxtasksperchunk=0)
            else:
                res = exp.emulate(prog, seed=seed, mt=int(mode[-1]), result_file=f)
        except Exception as e:
            sym.fail(f"resuming from a log cut at byte {k} of {len(L)} raised {type(e).__name__}: {str(e)[:80]}")
        got = exp.comparable(res)
        dd = exp.diff(ref, got)
        sym.check(dd is None, f"resumed Result differs from the uninterrupted one (cut at byte {k} of {len(L)}): {dd}")
        sym.check(len(EVALS) == total - done_before, f"{done_before} of {total} triples were on file (cut at byte {k}) but {len(EVALS)} were evaluated on resume")
        again = exp.comparable(Result.from_file(f))
        dd = exp.diff(ref, again)
        sym.check(dd is None, f"Result.from_file after resumption differs: {dd}")
        # every id recorded once
        text = (gzip.decompress(open(f,'rb').read()) if gz else open(f,'rb').read()).decode(errors='ignore')
        ids = []
        for line in text.split('\n'):
            try: r = json.loads(line)
            except Exception: continue
            if r and r[0] in ('E','L','V','I'): ids.append((r[0], json.dumps(r[1])))
        sym.check(len(ids) == len(set(ids)), f"a record id occurs twice in the file after resumption (cut at byte {k})")
    finally:
        shutil.rmtree(d, ignore_errors=True)

def _killed_run(prog, f, n):
    """a REAL run in a separate interpreter that dies (os._exit) right after the n-th record has been handed to the sink and written"""
    import subprocess, sys
    code = ("import sys,os,warnings; warnings.simplefilter('ignore')\n"
            "from vf import exp\n"
            "import coba.results.core as rc\n"
            "orig = rc.TransactionEncode.filter\n"
            "def filt(self, transactions):\n"
            "    for i,x in enumerate(orig(self, transactions)):\n"
            f"        if i == {n}: sys.stdout.flush(); os._exit(0)\n"
            "        yield x\n"
            "rc.TransactionEncode.filter = filt\n"
            "import coba.experiments.core as core; core.TransactionEncode = rc.TransactionEncode\n"
            "if __name__ == '__main__':\n"
            f"    exp.run_real({prog!r}, result_file={f!r}, processes=1, maxchunksperchild=0, maxtasksperchunk=0)\n")
    d = os.path.dirname(f)
    script = os.path.join(d, 'killed_main.py'); open(script,'w').write(code)
    env = dict(os.environ); env['PYTHONPATH'] = os.environ.get('VERIF_REPO','/repo') + ':' + os.path.dirname(os.path.dirname(os.path.dirname(os.path.abspath(__file__))))
    subprocess.run([sys.executable, '-W', 'ignore', script], capture_output=True, text=True, timeout=120, env=env, cwd=d)

@obligation('C02','kill_between_records', bounds="a REAL run (separate interpreter) killed by os._exit right after its n-th record was written, n a z3 int over every record count, for 2 program shapes x {plain,.gz}; then resumed in-process: same oracle as C02.resume",
            functions=FUNCS, classify=_classify, budget={'quick':150,'thorough':600},
            params=lambda tier: [dict(prog=p, gz=g) for p in ('one_env_two_evals','tuples_shared') for g in (False,True)])
def kill_between_records(sym, prog, gz):
    _instrument()
    L, ref = full_log(prog, gz)
    text = (gzip.decompress(L) if gz else L).decode()
    nrec = len([l for l in text.split('\n') if l])
    n = unwrap(sym.int('n', 1, nrec-1))
    sym.note(k=f"after record {n}", gz=gz, prog=prog)
    d = tempfile.mkdtemp(prefix='c02k_')
    try:
        f = os.path.join(d, _fname(gz))
        _killed_run(prog, f, n)
        sym.check(os.path.exists(f), "the killed run left no file")
        P = open(f,'rb').read()
        try:
            done_before = n_complete_I(P, gz)
            del EVALS[:]
            res = exp.run_real(prog, result_file=f, processes=1, maxchunksperchild=0, maxtasksperchunk=0)
        except Exception as e:
            sym.fail(f"resuming a run killed between records (after record {n} of {nrec}, gz={gz}) raised {type(e).__name__}: {str(e)[:80]}")
        dd = exp.diff(ref, exp.comparable(res))
        sym.check(dd is None, f"resumed Result differs from the uninterrupted one (killed after record {n}): {dd}")
        total = n_complete_I(L, gz)
        sym.check(len(EVALS) == total - done_before, f"{done_before} of {total} triples were on file (killed after record {n}) but {len(EVALS)} were evaluated on resume")
    finally:
        shutil.rmtree(d, ignore_errors=True)

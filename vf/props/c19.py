"""C19 Shared caches never expose partial entries and always release their locks."""
import os, tempfile, shutil, itertools, threading
from vf.run import obligation
from symx import is_sym, And, Or, Not, Implies, ite

import coba.context.cachers as cc
from coba.context.cachers import ConcurrentCacher, MemoryCacher, DiskCacher
from coba.exceptions import CobaException

EXPLANATION = ("Rely/guarantee check with a symbolic environment: ONE caller executes the real ConcurrentCacher.get_set / rmv while, at every entry of the "
               "shared lock and at every sleep, the shared counter for its key and the inner cache's membership are havocked to arbitrary values "
               "allowed by the lock-table invariant (any number of other callers doing anything legal). z3 decides every branch on the counter. Checked: "
               "every atomic block preserves the invariant (delta counter == delta own entry), the inner cache is read only under a read/write lock and "
               "populated/removed only under the write lock, the getter runs only under the write lock on a missing key, and on EVERY exit path "
               "(normal, getter raises, body raises, inner cache raises) the caller's own entries and its contribution to the counter are gone. "
               "Cross-check: 2-3 real callers on a simulated lock/sleep/inner cache under a delay-bounded schedule (positions of the delays are z3 integers).")
ASSUMPTIONS = ["invariant I: counter == sum of per-caller entries for keys hashing to the slot; entries >= -1; an entry of -1 (writer) excludes all others. Other callers are assumed to obey I (they run the same code, whose blocks are shown to preserve I)",
               "the shared lock object (constructor argument) and time.sleep (module-level name in coba.context.cachers) are the interference points; spin loops are unrolled twice and then cut (waiting is legal; liveness under fairness is outside)",
               "ConcurrentCacher._index is replaced by a 2-valued stub so that distinct keys may share a slot; a single caller never nests get_set on colliding keys (property precondition)",
               "DiskCacher: torn files / writes cut at a byte are file-system + zlib behaviour (C I/O) and NOT encoded; only its control flow 'populating raises => entry removed, exception propagates, later get_set repopulates' is executed concretely over an enumerated fault position"]
FUNCS = ['coba.context.cachers:ConcurrentCacher.get_set','coba.context.cachers:ConcurrentCacher.rmv','coba.context.cachers:ConcurrentCacher._release_read_on_exit',
         'coba.context.cachers:ConcurrentCacher._acquire_read_lock','coba.context.cachers:ConcurrentCacher._release_read_lock','coba.context.cachers:ConcurrentCacher._acquire_write_lock',
         'coba.context.cachers:ConcurrentCacher._release_write_lock','coba.context.cachers:ConcurrentCacher._switch_write_to_read_lock','coba.context.cachers:ConcurrentCacher._has_read_lock',
         'coba.context.cachers:ConcurrentCacher._has_write_lock','coba.context.cachers:MemoryCacher','coba.context.cachers:DiskCacher.get_set']

class World:
    """the shared state of one lock-table slot as seen by the caller under test"""
    def __init__(self, sym, keys, slot_of):
        self.sym, self.keys, self.slot_of = sym, keys, slot_of
        self.n = 0
        self.others = {s: 0 for s in set(slot_of.values())}      # contribution of all other callers per slot (-1 = a writer)
        self.cacher = None
        self.cached = {}                                           # key -> bool/SymBool (membership of the inner cache)
        self.sleeps = 0
        self.max_sleeps = 1
        self.in_lock = False
    def own(self, key):
        return self.cacher._locks[(threading.current_thread().ident, key)]
    def own_slot(self, slot):
        return sum(self.own(k) for k in self.keys if self.slot_of[k] == slot)
    def counter(self, slot):
        o = self.others[slot]
        return ite(o == -1, -1, self.own_slot(slot)+o) if is_sym(o) else (-1 if o == -1 else self.own_slot(slot)+o)
    def havoc(self):
        """other callers may do anything that keeps I, given what the caller under test holds"""
        self.n += 1
        for s in self.others:
            mine = self.own_slot(s)
            if mine == -1: self.others[s] = 0; continue                 # we are the writer: nobody else holds anything
            o = self.sym.int(f'others{self.n}_{s}', -1, 1)
            if mine > 0: self.sym.assume(o >= 0)                        # we hold a read lock: no writer possible
            self.others[s] = o
        for k in self.keys:
            if self.own(k) == 0 and self.own_slot(self.slot_of[k]) == 0:
                self.cached[k] = self.sym.bool(f'cached{self.n}_{k}')   # nobody of us protects the entry: it may appear/disappear

class SymArray:
    """the shared counter table: a real store that the code reads and updates; other callers rewrite it only while the lock is free"""
    def __init__(self, world): self.w = world; self.store = {s: 0 for s in world.others}
    def __len__(self): return 2**16
    def __iter__(self): return iter(self.store.values())
    def __getitem__(self, i):
        if isinstance(i, slice):
            # slicing a list / RawArray gives a private COPY: later updates of the shared table are not seen through it
            snap = SymArray.__new__(SymArray); snap.w = self.w; snap.store = dict(self.store); snap.sync = lambda: None
            return snap
        return self.store[i]
    def __setitem__(self, i, v): self.store[i] = v
    def sync(self):
        for s in self.store: self.store[s] = self.w.counter(s)

class Lock:
    def __init__(self, world, arr): self.w, self.arr = world, arr
    def __enter__(self):
        w = self.w
        w.sym.check(not w.in_lock, "shared lock re-entered")
        w.in_lock = True
        w.havoc(); self.arr.sync()
        return self
    def __exit__(self, *exc):
        w = self.w
        w.in_lock = False
        for s in w.others:
            # invariant I after the atomic block: counter == own entries + the (unchanged) contribution of the others
            w.sym.check(self.arr.store[s] == w.counter(s), f"G1: after an atomic block the counter of slot {s} is not own entries + other callers' entries")
            w.sym.check(self.arr.store[s] >= -1, "G1: counter below -1")
            w.sym.check(Implies(w.own_slot(s) == -1, And(self.arr.store[s] == -1, w.others[s] == 0)), "G1: writer entry while others hold the slot")
            w.sym.check(Implies(w.others[s] == -1, w.own_slot(s) == 0), "G1: entry acquired while another caller writes")
        return False

class Monitor(MemoryCacher):
    """inner cache with access monitor; membership is the havocked world state"""
    def __init__(self, world, fail_on=None):
        super().__init__(); self.w = world; self.fail_on = fail_on; self.getter_calls = {}
    def _has(self, key):
        c = self.w.cached.get(key, False)
        return bool(c)            # forks when symbolic
    def __contains__(self, key):
        return self._has(key)
    def rmv(self, key):
        self.w.sym.check(self.w.own(key) == -1, "G2: inner cache entry removed without holding the write lock")
        if self.fail_on == 'rmv': raise IOError("inner cache failure")
        self.w.cached[key] = False
    def get_set(self, key, getter):
        from contextlib import nullcontext
        if self._has(key):
            self.w.sym.check(self.w.own(key) != 0, "G2: inner cache entry read without holding a lock")
            if self.fail_on == 'read': raise IOError("inner cache failure")
            return nullcontext(('value-of',key))
        self.w.sym.check(self.w.own(key) == -1, "G2: inner cache entry populated without holding the write lock")
        self.w.sym.check(getter is not None, "G2: cached entry vanished while the caller held a lock on it")
        self.getter_calls[key] = self.getter_calls.get(key,0)+1
        value = getter() if callable(getter) else getter
        if self.fail_on == 'write': raise IOError("inner cache failure")
        self.w.cached[key] = True
        return nullcontext(('value-of',key))

class _TimeStub:
    def __init__(self, world): self.w = world
    def sleep(self, s):
        if getattr(self.w, 'forbid_wait', None): self.w.sym.fail(self.w.forbid_wait)
        if getattr(self.w, 'interrupt_wait', False): raise KeyboardInterrupt("interrupted while waiting for a lock")
        self.w.sleeps += 1
        if self.w.sleeps > self.w.max_sleeps: self.w.sym.assume(False)     # cut: waiting longer is legal, nothing new happens
        self.w.havoc(); self.w.cacher._array.sync()
    def time(self): return 0.0

def setup(sym, fail_on):
    keys = ['k1','k2']
    collide = sym.flag('collide')
    slot_of = {'k1': 3, 'k2': 3 if collide else 5}
    w = World(sym, keys, slot_of)
    arr = SymArray(w)
    cacher = ConcurrentCacher(Monitor(w, fail_on), list=arr, lock=Lock(w, arr))
    cacher._index = lambda key: slot_of[key]
    w.cacher = cacher
    for k in keys: w.cached[k] = sym.bool(f'cached0_{k}')
    return w, cacher

def final_checks(sym, w, when):
    for k in w.keys:
        sym.check(w.own(k) == 0, f"G3 ({when}): the caller still holds a lock entry for {k}")
    for s in w.others:
        sym.check(w.own_slot(s) == 0, f"G3 ({when}): the caller's contribution to slot {s} was not removed")
        o = w.others[s]
        sym.check(w.cacher._array.store[s] == (ite(o == -1, -1, o) if is_sym(o) else (-1 if o == -1 else o)), f"G3 ({when}): counter of slot {s} does not return to the other callers' contribution")

def _classify(v):
    if "'NoneType' object is not iterable" in v['what'] and v['choices'].get('empty_file_first'): return "zero-length cache file under ConcurrentCacher: TypeError (getter=None handed to DiskCacher)"
    return v['what'][:100]

OPS = ['get_ok','get_getter_raises','get_body_raises','rmv']

@obligation('C19','rely_guarantee', bounds="one caller, ONE operation from {get_set ok, get_set with raising getter, get_set with raising body, rmv} started from the state between operations (the caller holds nothing - re-established by G3, so sequences of any length are covered inductively); inner cache fails on read / write / rmv or not, or the caller is interrupted while waiting for a lock; shared counter and cache membership havocked at every lock entry and sleep within invariant I (others' contribution in [-1,1]); spin loops unrolled once (twice in the thorough tier)",
            functions=FUNCS, classify=_classify, budget={'quick':80,'thorough':600},
            params=lambda tier: [dict(op=a, fail=f, unroll=(1 if tier=='quick' else 2)) for a in OPS for f in (None,'read','write','rmv','interrupt_wait')],
            stubs=["lock object -> havoc of shared counter and cache membership within I", "time.sleep -> havoc, unrolled", "_index -> 2-valued stub"])
def rely_guarantee(sym, op, fail, unroll=1):
    w, cacher = setup(sym, fail if fail != 'interrupt_wait' else None)
    w.max_sleeps = unroll
    w.interrupt_wait = (fail == 'interrupt_wait')        # the caller is interrupted (Ctrl-C) while it sleeps waiting for a lock it does not hold yet
    key = 'k1'
    old_time = cc.time
    cc.time = _TimeStub(w)
    try:
        w.sleeps = 0
        try:
            if op == 'rmv':
                cacher.rmv(key)
            else:
                def getter(op=op):
                    sym.check(w.own(key) == -1, "getter ran without the write lock")
                    sym.check(not bool(w.cached.get(key, False)), "getter ran although the entry is cached")
                    if op == 'get_getter_raises': raise ValueError("getter failed")
                    return ('value-of',key)
                with cacher.get_set(key, getter) as value:
                    sym.check(value == ('value-of',key), "caller did not receive the complete cached value")
                    sym.check(w.own(key) >= 1, "with-body runs without a read lock on the entry")
                    sym.check(bool(w.cached.get(key, False)), "with-body runs although the entry is not cached")
                    if op == 'get_body_raises': raise KeyError("body failed")
        except (ValueError, KeyError, IOError, KeyboardInterrupt):
            pass
        final_checks(sym, w, f"after {op}")
        sym.check(cacher._cache.getter_calls.get(key,0) <= 1, "getter ran more than once for one get_set")
    finally:
        cc.time = old_time

@obligation('C19','nested', bounds="inside its own get_set block on k1 a caller calls rmv(k1) (must be refused with CobaException, no self-deadlock), get_set(k1) again (allowed; also twice nested, followed by a third read or by an rmv that must be refused rather than waited for), or get_set / rmv on another key in another slot (independent); everything is released afterwards",
            functions=FUNCS, classify=_classify, params=lambda tier: [dict(inner=i) for i in ('rmv','get_set','other_get','other_rmv','nested2_rmv','nested2_get')])
def nested_same_key(sym, inner):
    w, cacher = setup(sym, None)
    w.max_sleeps = 0          # contention is the subject of C19.rely_guarantee; here every wait is cut at once
    if inner.startswith('other') and w.slot_of['k2'] == w.slot_of['k1']: sym.assume(False)    # nested colliding keys are excluded by the property
    old_time = cc.time; cc.time = _TimeStub(w)
    try:
        try:
            with cacher.get_set('k1', lambda: ('value-of','k1')) as v:
                try:
                    if inner in ('rmv','nested2_rmv','nested2_get'): w.forbid_wait = "self-deadlock: the caller waits for a lock on a key it holds a read lock on itself"
                    if inner == 'rmv': cacher.rmv('k1'); sym.fail("rmv inside a get_set block on the same key must be refused")
                    elif inner in ('nested2_rmv','nested2_get'):
                        with cacher.get_set('k1', lambda: ('value-of','k1')) as v2:
                            sym.check(w.own('k1') >= 2, "two nested reads must both be counted")
                            if inner == 'nested2_rmv':
                                try: cacher.rmv('k1'); sym.fail("rmv inside two nested get_set blocks on the same key must be refused")
                                except CobaException: pass
                            else:
                                with cacher.get_set('k1', lambda: ('value-of','k1')) as v3: sym.check(v3 == v, "third nested read gives another value")
                        sym.check(w.own('k1') == 1, "leaving the inner block must release exactly one read entry")
                    elif inner == 'other_get':
                        with cacher.get_set('k2', lambda: ('value-of','k2')) as v2: sym.check(v2 == ('value-of','k2') and w.own('k1') >= 1, "nested get_set on another key")
                    elif inner == 'other_rmv':
                        cacher.rmv('k2'); sym.check(w.own('k1') >= 1 and w.own('k2') == 0, "nested rmv on another key")
                    else:
                        with cacher.get_set('k1', lambda: ('value-of','k1')) as v2:
                            sym.check(v2 == v, "nested read gives another value")
                except CobaException:
                    sym.check(inner == 'rmv', "nested read on the same key must be allowed")
                finally: w.forbid_wait = None
        except CobaException:
            sym.fail("outer get_set raised CobaException")
        final_checks(sym, w, "after nested operations")
    finally:
        cc.time = old_time

@obligation('C19','disk_control_flow', bounds="NOT symbolic: DiskCacher in a scratch directory or a MemoryCacher, getter yielding 3 lines and raising ValueError / KeyboardInterrupt / SystemExit after j in {0,1,2,3(never)} lines, through ConcurrentCacher(DiskCacher) and directly: a failed population leaves no entry, the error propagates, a later get_set repopulates and serves the complete value; zero-length file is treated as absent",
            functions=FUNCS, classify=_classify, params=lambda tier: [dict(j=j, wrap=wr, exc=x, inner=i) for j in (0,1,2,3) for wr in (False,True) for x in ('ValueError','KeyboardInterrupt','SystemExit') for i in ('disk','memory')])
def disk_control_flow(sym, j, wrap, exc='ValueError', inner='disk'):
    EXC = {'ValueError':ValueError,'KeyboardInterrupt':KeyboardInterrupt,'SystemExit':SystemExit}[exc]
    d = tempfile.mkdtemp(prefix='c19_')
    try:
        base = DiskCacher(d) if inner == 'disk' else MemoryCacher()
        cacher = ConcurrentCacher(base) if wrap else base
        def getter():
            for i in range(3):
                if i == j: raise EXC("getter failed part-way")
                yield f"line{i}"
        if inner == 'disk' and sym.flag('empty_file_first'): open(os.path.join(d,'key.gz'),'wb').close()
        try:
            with cacher.get_set('key', getter) as f: got = [l.rstrip('\n') for l in f]
            sym.check(j == 3, "a getter that failed part-way was served as a complete entry")
            sym.check(got == ['line0','line1','line2'], f"complete value expected, got {got}")
        except EXC:
            sym.check(j < 3, "error raised although the getter succeeded")
            sym.check('key' not in cacher, "a failed population left an entry behind")
        with cacher.get_set('key', lambda: ['line0','line1','line2']) as f: got = [l.rstrip('\n') for l in f]
        sym.check(got == ['line0','line1','line2'], f"after a failed population a later get_set must serve the complete value, got {got}")
        if wrap: sym.check(all(v == 0 for v in cacher._array) and all(v == 0 for v in cacher._locks.values()), "locks still held after all callers left")
    finally:
        shutil.rmtree(d, ignore_errors=True)

# ---------------------------------------------------------------------------------------------------
# Bounded-schedule cross-check of the rely/guarantee argument: several REAL callers on simulated lock/sleep
from contextlib import contextmanager as _cm

class _SimLock:
    def __init__(self, sched): self.s, self.held = sched, False
    def __enter__(self):
        self.s.wait(lambda: not self.held, 'lock'); self.held = True
    def __exit__(self, *a): self.held = False

class _SimTime:
    def __init__(self, sched): self.s = sched
    def sleep(self, s): self.s.wait(None, 'sleep')
    def time(self): return 0.0

_PARTIAL = object()

class _SimCache:
    """inner cache with yield points inside every operation; records protocol violations instead of raising"""
    def __init__(self, sched, cacher_ref, bad, slot_of):
        self.s, self.ref, self.bad, self.slot_of = sched, cacher_ref, bad, slot_of
        self.d = {}; self.populations = {}; self.removals = {}
    def _arr(self, key): return self.ref[0]._array[self.slot_of[key]]
    def __contains__(self, key):
        self.s.wait(None, 'contains')
        return key in self.d and self.d[key] is not _PARTIAL
    def rmv(self, key):
        if self._arr(key) != -1: self.bad.append(f"inner rmv({key}) without the write lock (counter {self._arr(key)})")
        self.s.wait(None, 'rmv')
        self.d.pop(key, None); self.removals[key] = self.removals.get(key,0) + 1
    def get_set(self, key, getter):
        if getter is None:
            if self._arr(key) < 1: self.bad.append(f"inner read of {key} without a read lock (counter {self._arr(key)})")
            v = self.d.get(key, None)
            if v is None or v is _PARTIAL: self.bad.append(f"a reader was handed a {'partial' if v is _PARTIAL else 'missing'} entry for {key}")
            return self._ctx(key, v)
        if self._arr(key) != -1: self.bad.append(f"populating {key} without the write lock (counter {self._arr(key)})")
        if key in self.d: self.bad.append(f"getter called although {key} is cached")
        self.d[key] = _PARTIAL
        try:
            items = []
            for x in (getter() if callable(getter) else getter):
                items.append(x)
                self.s.wait(None, 'populate')
                if self._arr(key) != -1: self.bad.append(f"write lock on {key} lost while populating (counter {self._arr(key)})")
        except BaseException:
            self.d.pop(key, None)
            raise
        self.d[key] = list(items); self.populations[key] = self.populations.get(key,0) + 1
        return self._ctx(key, self.d[key])
    @_cm
    def _ctx(self, key, v):
        yield v

def _c19_sched_params(tier):
    progs = [(('get','k1'),('get','k1')), (('get','k1'),('rmv','k1')), (('rmv','k1'),('get','k1')), (('getx','k1'),('get','k1')), (('get','k1'),('get','k2')), (('get','k1'),('rmv','k1'),('get','k1')), (('getb','k1'),('rmv','k1')), (('getb','k1'),('get','k1'))]
    # 'getn': a get_set on k1 whose body opens another get_set on k2 (nested reads) while another caller removes / reads
    progs = progs + [(('getn','k1'),('rmv','k1')), (('getn','k1'),('rmv','k2')), (('getn','k1'),('get','k2'))]
    if tier == 'quick': return [dict(prog=list(map(list,p)), delays=1) for p in progs]
    more = [(('get','k1'),('get','k1'),('get','k1')), (('rmv','k1'),('rmv','k1'),('get','k1')), (('getx','k1'),('rmv','k1'),('get','k1')), (('get','k1'),('get','k2'),('rmv','k1'))]
    return [dict(prog=list(map(list,p)), delays=2) for p in progs+more] + [dict(prog=list(map(list,p)), delays=3) for p in progs[:4]]

@obligation('C19','schedules', bounds={'quick':"cross-check of the rely/guarantee argument: 2-3 REAL callers (threads holding a baton), each doing one operation (get_set, get_set with a raising getter, get_set whose body raises, rmv) followed by a get_set, on one key (or two keys sharing a slot / in different slots), run the real ConcurrentCacher on a simulated lock, sleep and inner cache with yield points inside every inner operation; delay-bounded schedule (run-to-block round-robin + 1 delay at a z3-chosen choice point)",
                                       'thorough':"2 delays (3 for four programs); 10 programs"},
            functions=FUNCS, params=_c19_sched_params, classify=_classify, budget={'quick':100,'thorough':1500},
            stubs=['lock -> baton-aware mutex; coba.context.cachers.time.sleep -> yield; inner cache -> dict with yield points inside contains/populate/rmv and protocol monitors; ConcurrentCacher._index -> 2-valued stub'])
def schedules(sym, prog, delays):
    from vf import sim
    sched = sim.Sched()
    # the statement excludes a caller nesting get_set on two keys whose hashes collide (the lock table is hash-indexed by design)
    collide = sym.flag('collide') if not any(op == 'getn' for op,_ in prog) else False
    slot_of = {'k1': 3, 'k2': 3 if collide else 5}
    bad, ref = [], [None]
    inner = _SimCache(sched, ref, bad, slot_of)
    cacher = ConcurrentCacher(inner, list=[0]*2**16, lock=_SimLock(sched))
    cacher._index = lambda key: slot_of[key]
    ref[0] = cacher
    preload = sym.flag('preloaded')
    if preload: inner.d['k1'] = ['v0','v1']
    old_time = cc.time
    cc.time = _SimTime(sched)
    D = [sym.int(f'delay{k}', 0, 120) for k in range(delays)]
    for a,b in zip(D, D[1:]): sym.assume(a <= b)
    results = {}
    def getter_ok(tag):
        def g():
            yield f'{tag}0'; yield f'{tag}1'
        return g
    def getter_bad():
        yield 'x0'
        raise ValueError("getter failed")
    def caller(i, op, key):
        def run():
            out = []
            for step,(o,k) in enumerate([(op,key),('get',key)]):
                try:
                    if o == 'rmv': cacher.rmv(k); out.append(('rmv',None))
                    else:
                        with cacher.get_set(k, getter_bad if o == 'getx' else getter_ok(f'c{i}s{step}')) as v:
                            sched.wait(None, 'body')
                            if o == 'getb': raise ValueError("body failed")
                            if o == 'getn':
                                with cacher.get_set('k2', getter_ok(f'c{i}n{step}')) as v2:
                                    sched.wait(None, 'body')
                                    got2 = list(v2)
                                    if len(got2) != 2 or got2[0][:-1] != got2[1][:-1]: bad.append(f"caller {i} read an incomplete or mixed nested value {got2}")
                            got = list(v)
                            sched.wait(None, 'body')
                            if cacher._array[slot_of[k]] < 1: bad.append(f"caller {i} inside its block on {k} but the counter is {cacher._array[slot_of[k]]}")
                            out.append(('get', got))
                except ValueError as e: out.append(('raised', str(e)))
                except CobaException as e: out.append(('refused', str(e)))
            results[i] = out
        return run
    actors = [sched.spawn(f'caller{i}', caller(i, op, key)) for i,(op,key) in enumerate(prog)]
    st = dict(used=0, cp=0)
    def choose(step, enabled, d):
        if len(enabled) < 2: return d
        k = 0
        while st['used'] < delays and bool(D[st['used']] == st['cp']):
            st['used'] += 1; k += 1
        st['cp'] += 1
        # spinning callers are always runnable: rotate the default so that a holder of a lock gets to run (fair round-robin)
        return (d + k) % len(enabled)
    try:
        # run-to-block would let a spinning caller run forever: make 'sleep' a forced context switch by treating the sleeper as blocked for one step
        r = sched.run(_fair(choose, sched), lambda: all(a.done for a in actors), max_steps=1500)
    finally:
        sched.kill()
        cc.time = old_time
    trace = ' '.join(sched.trace[-20:])
    sym.check(r != 'deadlock', f"deadlock: no caller can run (prog={prog}); last steps: {trace}")
    sym.check(r != 'steps', f"no progress: callers still spinning after 1500 steps - a lock was never released (prog={prog}); last steps: {trace}")
    errs = [(a.name, repr(a.error)) for a in actors if a.error is not None]
    sym.check(not errs, f"caller failed unexpectedly: {errs[:1]}")
    sym.check(not bad, f"protocol: {bad[:1]}")
    for i,(op,key) in enumerate(prog):
        out = results.get(i, [])
        sym.check(len(out) == 2, f"caller {i} did not finish both operations: {out}")
        for kind,val in out:
            if kind == 'get': sym.check(len(val) == 2 and val[0][:-1] == val[1][:-1], f"caller {i} read an incomplete or mixed value {val}")
            sym.check(kind != 'refused', f"caller {i} was refused: {val}")
        if op == 'getx' and out: sym.check(out[0][0] in ('raised','get'), f"caller {i}: raising getter: {out[0]}")
    for key in ('k1','k2'):
        npop, nrm = inner.populations.get(key,0), inner.removals.get(key,0)
        sym.check(npop <= nrm + (0 if (preload and key == 'k1') else 1), f"{key} was populated {npop} times with {nrm} removals (preloaded={preload and key == 'k1'}): a getter ran although the entry was cached")
    sym.check(all(cacher._array[s] == 0 for s in set(slot_of.values())), f"counters not released at the end: {[cacher._array[s] for s in set(slot_of.values())]}")
    sym.check(all(v == 0 for v in cacher._locks.values()), f"own lock entries not released at the end: {dict(cacher._locks)}")

def _fair(choose, sched):
    """wrap a chooser: an actor that has just yielded at 'sleep' is skipped once (it would otherwise spin forever under run-to-block)"""
    def ch(step, enabled, d):
        cur = enabled[d]
        if getattr(cur, 'label', '') == 'sleep' and len(enabled) > 1 and sched.trace and sched.trace[-1] == cur.name:
            d = (d + 1) % len(enabled)
        return choose(step, enabled, d)
    return ch

"""C14 Supervised data becomes a bandit problem whose best action is the true label."""
import itertools, fractions
from vf.run import obligation
from symx import is_sym, And, Or

from coba.environments.supervised import SupervisedSimulation, CsvSource, ArffSource, LibSvmSource, ManikSource
from coba.environments import Environments
from coba.pipes import IterableSource, ListSource, Reservoir
from coba.primitives import Categorical

EXPLANATION = ("SupervisedSimulation / Environments.from_supervised run on example sets whose labels are z3 integers (which labels coincide is "
               "decided by the solver), on symbolic regression targets and probe actions, on enumerated multi-label sets with list-valued probe "
               "actions, and end-to-end on CSV/ARFF/LibSVM/Manik text with label columns by index and header; every interaction is compared with "
               "the example it came from: action set == distinct labels, context == features without the label, argmax reward == true label, "
               "Jaccard and negative absolute error as exact rationals/reals.")
ASSUMPTIONS = ["classification labels are ints in [0,2] (symbolic) or strings/Categoricals/list-wrapped (enumerated); for Categorical labels the action set is the declared level list (documented optimisation) and must contain every label",
               "text sources are concrete lines over a small vocabulary (csv/re are C modules); their label column position, header use, sparse/dense form and take are enumerated",
               "take: compared with pipes.Reservoir(take) applied to the examples (the 'seeded reservoir sample')"]
FUNCS = ['coba.environments.supervised:SupervisedSimulation.__init__','coba.environments.supervised:SupervisedSimulation.read','coba.pipes.rows:LabelRows',
         'coba.pipes.rows:LabelDense','coba.pipes.rows:LabelSparse','coba.primitives:BinaryReward','coba.primitives:HammingReward','coba.primitives:L1Reward',
         'coba.environments.core:Environments.from_supervised','coba.pipes.readers:LibsvmReader','coba.pipes.readers:ManikReader','coba.pipes.readers:CsvReader']

def ctx_equal(a, b):
    if isinstance(b, dict): return dict(a.items() if hasattr(a,'items') else a) == b
    if isinstance(b, (list,tuple)): return list(a) == list(b)
    return a == b

def check_classification(sym, inter, X, Y, what, levels=None):
    sym.check(len(inter) == len(X), f"{what}: {len(inter)} interactions for {len(X)} examples")
    if not inter: return
    acts0 = list(inter[0]['actions'])
    distinct = []
    for y in Y:
        if not any(y == d for d in distinct): distinct.append(y)
    if levels is None:
        sym.check(len(acts0) == len(distinct), f"{what}: {len(acts0)} actions but {len(distinct)} distinct labels")
        for d in distinct: sym.check(any(a == d for a in acts0), f"{what}: a label is missing from the action set")
    else:
        sym.check([str(a) for a in acts0] == list(levels), f"{what}: categorical action set is not the declared level list")
    for i in range(len(acts0)):
        for j in range(i): sym.check(acts0[i] != acts0[j], f"{what}: duplicate action")
    for it,x,y in zip(inter,X,Y):
        sym.check(list(it['actions']) == acts0, f"{what}: interactions offer different action sets")
        sym.check(ctx_equal(it['context'], x), f"{what}: context is not the example's features without the label")
        for a in acts0:
            r = it['rewards'](a)
            sym.check(r == (1 if a == y else 0), f"{what}: reward of action {a!r} for label {y!r} is {r!r}")

@obligation('C14','xy_classification', bounds="<=3 examples given as (X,Y): labels symbolic ints in [0,2] (plain or list-wrapped) or strings / Categoricals; dense or sparse symbolic features; explicit 'c' (ints) or inferred type",
            functions=FUNCS, params=lambda tier: [dict(n=n, lk=k) for n in ((0,1,2,3) if tier == 'quick' else (0,1,2,3,4)) for k in ('int','intlist','str','cat')])
def xy_classification(sym, n, lk):
    feat = sym.choice('feat', ['dense','sparse','scalar'])
    X = []
    for i in range(n):
        a, b = sym.int(f'x{i}',-2,2), sym.int(f'z{i}',-2,2)
        X.append([a,b] if feat == 'dense' else {'p':a,'q':b} if feat == 'sparse' else a)
    levels = None
    if lk in ('int','intlist'):
        Yv = [sym.int(f'y{i}',0,2) for i in range(n)]
        Y = Yv if lk == 'int' else [[y] for y in Yv]
        args = (X, Y, 'c')
    elif lk == 'str':
        Yv = [sym.choice(f'y{i}', ['a','b','c']) for i in range(n)]
        Y = Yv; args = (X, Y) if sym.flag('infer') else (X, Y, 'c')
    else:
        levels = ['u','v','w']
        Yv = [Categorical(sym.choice(f'y{i}', levels), levels) for i in range(n)]
        Y = Yv; args = (X, Y, 'c')
    # Environments[i] appends Finalize (one-hot etc.); the un-finalized pipeline is what the statement describes
    env = Environments.from_supervised(*args)._envs if sym.flag('via_envs') else [SupervisedSimulation(*args)]
    X0, Yv0 = list(X), list(Yv)
    if n >= 1 and sym.flag('caller_reuses_lists'):
        # the caller goes on using its own lists after the environment was built from them (appends the next example)
        X.append(X0[0]); Y.append(Y[0])
    inter = list(env[0].read())
    inter = [dict(i) for i in inter]
    check_classification(sym, inter, X0, Yv0, f"(X,Y) {lk}", levels)

@obligation('C14','xy_regression', bounds="<=3 examples, symbolic real targets k/4 or plain int targets, symbolic probe action; type 'r'/'R' or inferred: reward == -|a-y|; no action list; type explicit 'r' or inferred from numeric labels",
            functions=FUNCS, params=lambda tier: [dict(n=n) for n in ((1,2,3) if tier == 'quick' else (1,2,3,4))])
def xy_regression(sym, n):
    X = [[sym.int(f'x{i}',-2,2)] for i in range(n)]
    ints = sym.flag('int_targets')        # integer-valued targets (plain Python ints) are numeric labels too
    Y = [(sym.choice(f'yi{i}', [-1,0,2,3]) if ints else sym.real(f'y{i}',-2,2,denom=4)) for i in range(n)]
    args = (X,Y) if sym.flag('infer') else (X,Y, sym.choice('tipe', ['r','R']))
    inter = list(SupervisedSimulation(*args).read())
    sym.check(len(inter) == n, "regression: interaction count")
    a = sym.real('probe',-3,3,denom=4)
    for it,x,y in zip(inter,X,Y):
        sym.check(list(it['actions']) == [], "regression: continuous problem must not list actions")
        sym.check(ctx_equal(it['context'], x), "regression: context")
        r = it['rewards'](a)
        sym.check(r == (y-a if a >= y else a-y), "regression: reward is not the negative absolute error")

LABELSETS = [[1],[1,2],[2,3],[1,2,3,4],[4]]
PROBES = [list(c) for k in (1,2,3) for c in itertools.combinations([1,2,3,4,5],k)]

@obligation('C14','xy_multilabel', bounds="2 examples with label sets from {[1],[1,2],[2,3],[1,2,3,4],[4]}; action set == union of labels; reward of every listed action and of every probe subset of {1..5} up to size 3 == Jaccard overlap (exact rational)",
            functions=FUNCS)
def xy_multilabel(sym):
    Y = [sym.choice(f'y{i}', LABELSETS) for i in range(2)]
    X = [[i] for i in range(2)]
    inter = list(SupervisedSimulation(X, Y, 'm').read())
    sym.check(len(inter) == 2, "multilabel: interaction count")
    union = sorted(set(itertools.chain(*Y)))
    for it,y in zip(inter,Y):
        sym.check(sorted(it['actions']) == union and len(it['actions']) == len(union), f"multilabel: action set {it['actions']} is not the distinct labels {union}")
        for a in it['actions']:
            exp = fractions.Fraction(1 if a in y else 0, len(set(y)|{a}))
            sym.check(abs(it['rewards']([a])-float(exp)) < 1e-12, f"multilabel: reward of [{a}] for labels {y}")
        for p in PROBES:
            exp = fractions.Fraction(len(set(p)&set(y)), len(set(p)|set(y)))
            got = it['rewards'](list(p))
            sym.check(abs(got-float(exp)) < 1e-12, f"multilabel: reward of action {p} for labels {y} is {got}, Jaccard overlap is {exp}")

# ---------------------------------------------------------------------------------------------------
def source_params(tier):
    return [dict(fmt=f) for f in ('csv','csv_header','arff','arff_sparse','libsvm','manik','rows')]

@obligation('C14','sources', bounds="3 examples end-to-end from CSV (label column by index 0/last), CSV with header (label by name or index), ARFF dense/sparse (nominal or numeric label by name), LibSVM and Manik lines (incl. an example whose feature vector is empty), plain row source with LabelRows; take in {None,2,5}",
            functions=FUNCS, params=source_params)
def sources(sym, fmt):
    take = sym.choice('take', [None,2,5])
    labels = [sym.choice(f'l{i}', ['A','B']) for i in range(3)]
    feats  = [(sym.choice(f'f{i}', [1,2] if fmt not in ('libsvm','manik') else [0,1,2]), 7+i) for i in range(3)]       # LibSVM/Manik: a feature may be written explicitly as 0
    kw = {}
    if fmt in ('csv','csv_header'):
        pos = sym.choice('pos', ['first','last'])
        rows = [([l,str(a),str(b)] if pos == 'first' else [str(a),str(b),l]) for l,(a,b) in zip(labels,feats)]
        hdr = ['y','p','q'] if pos == 'first' else ['p','q','y']
        quoted = sym.flag('quoted_last_record')          # only the LAST record needs quotes: its first feature holds a comma
        if quoted:
            k = 1 if pos == 'first' else 0
            rows[2][k] = '"' + rows[2][k] + ',5"'
        if fmt == 'csv':
            lines = [",".join(r) for r in rows]
            src = CsvSource(ListSource(lines)); col = 0 if pos == 'first' else 2
        else:
            lines = [",".join(hdr)] + [",".join(r) for r in rows]
            src = CsvSource(ListSource(lines), has_header=True); col = 'y' if sym.flag('byname') else (0 if pos == 'first' else 2)
        X = [[str(a),str(b)] for a,b in feats]; Yv = labels; levels = None
        if quoted: X[2][0] = X[2][0] + ',5'
        env = SupervisedSimulation(src, col, 'c', take) if sym.flag('positional') else SupervisedSimulation(source=src, label_col=col, label_type='c', take=take)
    elif fmt in ('arff','arff_sparse'):
        lines = ["@relation t","@attribute p numeric","@attribute y {A,B}","@attribute q numeric","@data"]
        if fmt == 'arff': lines += [f"{a},{l},{b}" for l,(a,b) in zip(labels,feats)]
        else: lines += ["{"+f"0 {a},1 {l},2 {b}"+"}" for l,(a,b) in zip(labels,feats)]
        src = ArffSource(ListSource(lines))
        env = SupervisedSimulation(src, 'y', None, take)
        X = [[float(a),float(b)] for a,b in feats] if fmt == 'arff' else [{'p':float(a),'q':float(b)} for a,b in feats]
        Yv = labels; levels = ['A','B']
    elif fmt in ('libsvm','manik'):
        empty = sym.choice('empty', [None,0,2])       # which example has no non-zero feature
        lines = [(f"{l}" if i == empty else f"{l} 1:{a} 2:{b}") for i,(l,(a,b)) in enumerate(zip(labels,feats))]
        if fmt == 'manik': lines = ["3 2 2"] + lines
        src = (LibSvmSource if fmt == 'libsvm' else ManikSource)(ListSource(lines))
        env = SupervisedSimulation(src, None, None, take)
        X = [({} if i == empty else {1:float(a),2:float(b)}) for i,(a,b) in enumerate(feats)]
        Yv = labels; levels = None
    else:
        rows = [[a,l,b] for l,(a,b) in zip(labels,feats)]
        src = ListSource(rows)
        env = SupervisedSimulation(src, 1, 'c', take)
        X = [[a,b] for a,b in feats]; Yv = labels; levels = None
    inter = [dict(i) for i in env.read()]
    if take is not None:
        # the seeded reservoir sample of the examples
        idx = list(Reservoir(take).filter(range(3)))
        X = [X[i] for i in idx]; Yv_all = Yv; Yv = [Yv[i] for i in idx]
        sym.check(len(inter) == len(idx), f"{fmt} take={take}: {len(inter)} interactions, the reservoir sample has {len(idx)}")
        if not inter: return
        distinct = sorted(set(Yv))
    if not inter and not X: return
    # actions: distinct labels of the (sampled) data, or the declared levels for nominal ARFF labels
    acts0 = [str(a) for a in inter[0]['actions']] if inter else []
    if levels is not None:
        # nominal attribute: the declared levels (sparse ARFF adds its implicit '0' default level) - must cover the labels, no duplicates
        sym.check(set(levels) <= set(acts0) and len(set(acts0)) == len(acts0) and set(acts0) <= set(levels)|{'0'}, f"{fmt}: nominal label must offer the declared levels, got {acts0}")
    else: sym.check(sorted(acts0) == sorted(set(Yv)) and len(acts0) == len(set(Yv)), f"{fmt}: action set {acts0} is not the distinct labels {sorted(set(Yv))}")
    sym.check(len(inter) == len(X), f"{fmt}: {len(inter)} interactions for {len(X)} examples")
    for it,x,y in zip(inter,X,Yv):
        sym.check([str(a) for a in it['actions']] == acts0, f"{fmt}: interactions offer different action sets")
        c = it['context']
        got = dict(c.items()) if hasattr(c,'items') else list(c)
        if isinstance(x, dict) and fmt == 'arff_sparse': got = {k:v for k,v in got.items()}
        sym.check(got == x, f"{fmt}: context {got!r} is not the example's features {x!r}")
        for a in it['actions']:
            sym.check(it['rewards'](a) == (1 if str(a) == y else 0), f"{fmt}: reward of {a!r} for label {y!r}")

# ---------------------------------------------------------------------------------------------------
@obligation('C14','labelled_rows', bounds="3 examples: (a) class labels that are tuples (one-hot vectors), type 'c' given or inferred; (b) sparse rows whose numeric label 0 is not stored (dict rows with LabelRows, and sparse ARFF), as classification and as regression; (c) rows already labelled by LabelRows(col,'c') with numeric class labels or LabelRows(col,'m') with label lists, handed over WITHOUT label_col/label_type; (d) label_col with the type given in upper or lower case",
            functions=FUNCS, params=lambda tier: [dict(v=v) for v in ('tuple_labels','sparse_zero_rows','sparse_zero_arff','prelabelled_c','prelabelled_m','upper_case_type')])
def labelled_rows(sym, v):
    from coba.pipes import Pipes
    from coba.pipes.rows import LabelRows
    if v == 'tuple_labels':
        OH = [(1,0,0),(0,1,0),(0,0,1)]
        Y = [sym.choice(f'y{i}', OH) for i in range(3)]; X = [[i, 7] for i in range(3)]
        tipe = sym.choice('tipe', ['c', None])
        env = SupervisedSimulation(X, Y, tipe) if tipe else SupervisedSimulation(X, Y)
        inter = list(env.read())
        distinct = sorted(set(Y))
        sym.check(len(inter) == 3, "tuple labels: interaction count")
        for it,x,y in zip(inter,X,Y):
            sym.check(list(it['actions']) == distinct, f"tuple labels: action set {it['actions']} is not the distinct labels {distinct}")
            sym.check(list(it['context']) == x, "tuple labels: context")
            for a in distinct: sym.check(it['rewards'](a) == (1 if a == y else 0), f"tuple labels: reward of {a} for label {y}")
        return
    if v in ('sparse_zero_rows','sparse_zero_arff'):
        labs = [sym.choice(f'y{i}', [0,1,2]) for i in range(3)]
        sym.assume(0 in labs)                                         # at least one label is the implicit zero
        tipe = sym.choice('tipe', ['c','r'])
        if v == 'sparse_zero_rows':
            rows = [dict({'p': i+1}, **({'y': l} if l != 0 else {})) for i,l in enumerate(labs)]
            env = SupervisedSimulation(ListSource(rows), 'y', tipe)
            X = [{'p': i+1} for i in range(3)]
        else:
            lines = ["@relation t","@attribute p numeric","@attribute y numeric","@data"] + ["{"+f"0 {i+1}"+(f",1 {l}" if l != 0 else "")+"}" for i,l in enumerate(labs)]
            env = SupervisedSimulation(ArffSource(ListSource(lines)), 'y', tipe)
            X = [{'p': float(i+1)} for i in range(3)]
        try: inter = [dict(i) for i in env.read()]
        except Exception as e: sym.fail(f"{v}: reading raised {type(e).__name__}: {e} for labels {labs} (a label that is the implicit zero of a sparse row)")
        sym.check(len(inter) == 3, f"{v}: interaction count")
        for it,x,y in zip(inter,X,labs):
            sym.check(dict(it['context'].items()) == x, f"{v}: context {dict(it['context'].items())} is not the features {x}")
            if tipe == 'c':
                sym.check(sorted(it['actions']) == sorted(set(labs)) and len(it['actions']) == len(set(labs)), f"{v}: action set {it['actions']} is not the distinct labels of {labs}")
                for a in it['actions']: sym.check(it['rewards'](a) == (1 if a == y else 0), f"{v}: reward of {a} for label {y}")
            else:
                sym.check(list(it['actions']) == [], f"{v}: regression offers no action list")
                for a in (0, 1, 2.5): sym.check(it['rewards'](a) == -abs(a-y), f"{v}: reward of {a} for target {y}")
        return
    if v == 'prelabelled_c':
        labs = [sym.choice(f'y{i}', [1,2,3]) for i in range(3)]
        dense = sym.flag('dense')
        rows = [[i, l, 7] for i,l in enumerate(labs)] if dense else [{'p': i+1, 'y': l} for i,l in enumerate(labs)]
        src = Pipes.join(ListSource(rows), LabelRows(1 if dense else 'y', 'c'))
        env = SupervisedSimulation(src) if sym.flag('positional') else SupervisedSimulation(source=src)
        inter = [dict(i) for i in env.read()]
        sym.check(len(inter) == 3, "pre-labelled rows: interaction count")
        for it,l in zip(inter,labs):
            sym.check(sorted(it['actions']) == sorted(set(labs)) and len(it['actions']) == len(set(labs)), f"rows labelled as classification ('c') with numeric labels {labs}: action set is {it['actions']}")
            for a in sorted(set(labs)): sym.check(it['rewards'](a) == (1 if a == l else 0), f"rows labelled as classification: reward of {a} for label {l}")
        return
    if v == 'upper_case_type':
        tipe = sym.choice('tipe', ['R','M','C','r','m','c'])
        dense = sym.flag('dense')
        if tipe.lower() == 'm': labs = [sym.choice(f'y{i}', LABELSETS) for i in range(2)]
        else: labs = [sym.choice(f'y{i}', [1,2,3]) for i in range(2)]
        rows = [[i, l, 7] for i,l in enumerate(labs)] if dense else [{'p': i+1, 'y': l} for i,l in enumerate(labs)]
        inter = [dict(i) for i in SupervisedSimulation(ListSource(rows), 1 if dense else 'y', tipe).read()]
        sym.check(len(inter) == 2, f"label_type {tipe!r}: interaction count")
        for it,l in zip(inter,labs):
            if tipe.lower() == 'r':
                sym.check(list(it['actions']) == [], f"label_type {tipe!r}: a regression problem lists actions {it['actions']}")
                for a in (0, 1, 2.5): sym.check(it['rewards'](a) == -abs(a-l), f"label_type {tipe!r}: reward of {a} for target {l} is {it['rewards'](a)}")
            elif tipe.lower() == 'c':
                sym.check(sorted(it['actions']) == sorted(set(labs)), f"label_type {tipe!r}: action set {it['actions']}")
                for a in sorted(set(labs)): sym.check(it['rewards'](a) == (1 if a == l else 0), f"label_type {tipe!r}: reward of {a} for label {l}")
            else:
                union = sorted(set(itertools.chain(*labs)))
                sym.check(sorted(it['actions']) == union, f"label_type {tipe!r}: action set {it['actions']} is not {union}")
                for p in PROBES[:10]:
                    e = fractions.Fraction(len(set(p)&set(l)), len(set(p)|set(l)))
                    sym.check(abs(it['rewards'](list(p))-float(e)) < 1e-12, f"label_type {tipe!r}: reward of {p} for labels {l} is not the Jaccard overlap")
        return
    if v == 'prelabelled_m':
        Y = [sym.choice(f'y{i}', LABELSETS) for i in range(2)]
        rows = [[i, y] for i,y in enumerate(Y)]
        src = Pipes.join(ListSource(rows), LabelRows(1, 'm'))
        inter = [dict(i) for i in SupervisedSimulation(src).read()]
        union = sorted(set(itertools.chain(*Y)))
        sym.check(len(inter) == 2, "pre-labelled multilabel rows: interaction count")
        for it,y in zip(inter,Y):
            sym.check(sorted(it['actions']) == union and len(it['actions']) == len(union), f"rows labelled as multi-label ('m'): action set {it['actions']} is not the distinct labels {union}")
            for p in PROBES:
                exp = fractions.Fraction(len(set(p)&set(y)), len(set(p)|set(y)))
                sym.check(abs(it['rewards'](list(p))-float(exp)) < 1e-12, f"rows labelled as multi-label: reward of {p} for labels {y} is not the Jaccard overlap {exp}")

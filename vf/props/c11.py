"""C11 Scale and Impute apply exactly the statistics of their fitting window."""
import math, statistics
from vf.run import obligation
from symx import is_sym, SymReal, And, Or, Not

import coba.environments.filters as ef
from coba.environments.filters import Scale, Impute
from coba.environments import Environments
from coba.exceptions import CobaException

EXPLANATION = ("Scale.filter and Impute.filter (incl. Mutable, coba.statistics.iqr/percentile and the Environments.scale/impute shortcuts) run on "
               "contexts whose numeric features are exact symbolic reals; min/max/median/iqr/mode fork on z3-decided comparisons; the output is "
               "compared with an independently written reference computation over the fitting window in exact arithmetic (z3-decided identities).")
ASSUMPTIONS = ["feature values are exact dyadic reals k/2 in [-2,2]; 'exact arithmetic' of the statement = z3 reals",
               "statistics.fmean is replaced by sum/len on proxies (contract: arithmetic mean); statistics.stdev by an uninterpreted positive value sigma(window) recorded together with its argument, so WHICH window it is applied to is checked, not its value; math.isnan answers False on proxies",
               "a scale denominator below 1e-6 (constant / single-valued feature) leaves the feature un-scaled (scale factor = numerator), as the code documents by construction; not demanded by the statement, so accepted",
               "missing = None", "features with no known value in the fitting window are outside the claim; ties of the mode may be broken either way", "a sparse key without any known (present, non-missing) value in the fitting window has no statistic and is left unchanged (accepted convention, like the 1e-6 rule)"]
FUNCS = ['coba.environments.filters:Scale.filter','coba.environments.filters:Scale._get_shift_and_scale','coba.environments.filters:Scale._shift_value',
         'coba.environments.filters:Scale._scale_value','coba.environments.filters:Impute.filter','coba.environments.filters:Impute._get_imputation',
         'coba.environments.filters:Mutable','coba.statistics:iqr','coba.statistics:percentile','coba.environments.core:Environments.scale','coba.environments.core:Environments.impute']

# ---- stubs (module-level names of coba.environments.filters) ------------------------------------------------------------
_real_fmean, _real_stdev, _real_isnan = ef.fmean, ef.stdev, ef.isnan
STDEV_CALLS = []
_sym = [None]

def _fmean(values):
    values = list(values)
    if any(is_sym(v) for v in values):
        if not values: raise statistics.StatisticsError("fmean requires at least one data point")
        return sum(values)/len(values)
    return _real_fmean(values)

def _stdev(values):
    values = list(values)
    if any(is_sym(v) for v in values) and _sym[0] is not None:
        if len(values) < 2: raise statistics.StatisticsError("stdev requires at least two data points")
        k = len(STDEV_CALLS)
        s = _sym[0].real(f'sigma{k}', 0.5, 4, denom=2)
        STDEV_CALLS.append((list(values), s))
        return s
    return _real_stdev(values)

def _isnan(x):
    if is_sym(x): return False
    return _real_isnan(x)

ef.fmean, ef.stdev, ef.isnan = _fmean, _stdev, _isnan

def val(sym, name): return sym.real(name, -2, 2, denom=2)

# ---- reference computation -------------------------------------------------------------------------------------------
def ref_median(vs):
    s = sorted(vs); n = len(s)
    return s[n//2] if n % 2 else (s[n//2-1]+s[n//2])/2

def ref_percentile(s, p):
    i = p*(len(s)-1); I = int(i)
    return s[I] if i == I else (1-(i-I))*s[I] + (i-I)*s[I+1]

def ref_iqr(vs):
    if len(vs) <= 1: return 0
    s = sorted(vs)
    return ref_percentile(s,.75)-ref_percentile(s,.25)

def ref_shift_scale(sym, vs, shift, scale):
    """(shift, scale) of the statement for the non-missing window values vs; None when the statistic is undefined"""
    if not vs: return None
    if shift == 'min': sh = -min(vs)
    elif shift == 'mean': sh = -(sum(vs)/len(vs))
    elif shift == 'median': sh = -ref_median(vs)
    else: sh = shift
    num, den = 1, 1
    if scale == 'minmax': den = max(vs)-min(vs)
    elif scale == 'std':
        if len(vs) < 2: return None
        if not any(is_sym(v) for v in vs): den = statistics.stdev(vs)
        else:
            hit = [s for a,s in STDEV_CALLS if len(a) == len(vs) and all(sym.valid(x == y) for x,y in zip(a,vs))]
            if not hit: return 'std-wrong-window'
            den = hit[0]
    elif scale == 'iqr': den = ref_iqr(vs)
    elif scale == 'maxabs': den = max(abs(v+sh) for v in vs)
    else: num = scale
    if den < 0.000001: return sh, num
    return sh, num/den

def scale_params(tier):
    ps = []
    for cont in ('dense','sparse','scalar'):
        for shift in ((0,1,'min','mean','median') if cont != 'sparse' else (0,)):
            for scale in (2,'minmax','std','iqr','maxabs'):
                for using in (None,1,2,5):
                    ps.append(dict(cont=cont, shift=shift, scale=scale, using=using, n=3))
    return ps

def _classify(v):
    w = v['what']
    return w.split(' :: ')[0][:110]

@obligation('C11','scale', bounds={'quick':"N=3 interactions; dense (2 features, second one numeric or string), sparse (keys a,b with b present per row by choice) or scalar contexts; each numeric cell a symbolic real or None (missing) by choice, incl. the first row; shift in {0,1,min,mean,median}, scale in {2,minmax,std,iqr,maxabs}, using in {None,1,2,5}",
                                   'thorough':"same with N=4 for using in {None,2}"},
            functions=FUNCS, params=scale_params, classify=_classify, budget={'quick':80,'thorough':900},
            stubs=["fmean -> sum/len", "stdev -> uninterpreted positive sigma(window) with recorded argument", "isnan -> False on proxies"])
def scale(sym, cont, shift, scale, using, n):
    _sym[0] = sym if hasattr(sym,'branch') else None
    del STDEV_CALLS[:]
    second = sym.choice('second', ['num','str']) if cont == 'dense' else 'num'
    miss = [[sym.flag(f'miss{i}_{j}') for j in range(2)] for i in range(n)]
    pres = [sym.flag(f'pres{i}') if cont == 'sparse' else True for i in range(n)]
    rows, inter = [], []
    for i in range(n):
        x = None if miss[i][0] else val(sym, f'x{i}')
        y = ('s' if second == 'str' else (None if miss[i][1] else val(sym, f'y{i}')))
        rows.append((x,y))
        if cont == 'dense': ctx = [x, y]
        elif cont == 'sparse':
            ctx = {'a': x}
            if pres[i]: ctx['b'] = y
        else: ctx = x
        inter.append({'context': ctx, 'actions': [1,2], 'rewards': [val(sym, f'r{i}'), 0], 'extra': i})
    snapshot = [(d['context'] if not isinstance(d['context'],(list,dict)) else type(d['context'])(d['context'])) for d in inter]
    try:
        out = list(Scale(shift, scale, 'context', using).filter(iter(inter)))
    except CobaException:
        sym.check(cont == 'sparse' and shift != 0, "Scale rejected an environment it should handle"); return
    finally:
        _sym[0] = None
    sym.check(len(out) == n, "Scale changed the number of interactions")
    W = n if using is None else min(using, n)
    def column(j):
        if cont == 'dense' or cont == 'scalar': return [rows[i][j] for i in range(W)]
        if j == 0: return [rows[i][0] for i in range(W)]
        return [(rows[i][1] if pres[i] else 0) for i in range(W)]     # absent sparse key counts as 0 (dense equivalent)
    for j in range(2 if cont != 'scalar' else 1):
        if j == 1 and second == 'str':
            for i in range(n): sym.check(out[i]['context'][1] == 's', "non-numeric feature altered by Scale")
            continue
        vs = [v for v in column(j) if v is not None]
        if cont == 'sparse' and j == 1 and not any(pres[i] and rows[i][1] is not None for i in range(W)): vs = []   # key has no known value in the window: no statistic exists for it
        ss = ref_shift_scale(sym, vs, shift, scale)
        sym.check(ss != 'std-wrong-window', f"feature {j}: std was not computed over the fitting window's non-missing values")
        for i in range(n):
            x = rows[i][j]
            if cont == 'sparse':
                key = 'ab'[j]
                if j == 1 and not pres[i]:
                    sym.check('b' not in out[i]['context'], "absent sparse key appeared"); continue
                got = out[i]['context'][key]
            elif cont == 'dense': got = out[i]['context'][j]
            else: got = out[i]['context']
            if x is None:
                sym.check(got is None, f"row {i} feature {j}: missing value changed by Scale")
            elif ss is None:
                pass    # the feature has no known value in the fitting window: outside the claim (degenerate statistics are a convention)
            else:
                sym.check(got == (x+ss[0])*ss[1], f"row {i} feature {j}: not (x+shift)*scale with shift={shift},scale={scale} over the first {using} interactions (window values ignoring missing)")
    for i in range(n):
        sym.check(out[i]['actions'] == [1,2] and out[i]['extra'] == i and out[i]['rewards'][0] == inter[i]['rewards'][0], "actions/rewards/other fields altered by Scale")
    for d,s0 in zip(inter, snapshot):
        c = d['context']
        same = (c == s0) if not isinstance(s0,(list,dict)) else (len(c) == len(s0) and all((c[k] is s0[k]) or c[k] == s0[k] for k in (range(len(s0)) if isinstance(s0,list) else s0)))
        sym.check(same, "Scale modified the interactions it was given")

# ---------------------------------------------------------------------------------------------------
def ref_mode(sym, vs):
    """all modal values (ties are not ordered by the statement)"""
    counts = [sum(1 for w in vs if w == v) for v in vs]
    top = max(counts)
    return [v for v,c in zip(vs,counts) if c == top]

def impute_params(tier):
    return [dict(cont=c, stat=s, ind=i, using=u, n=3) for c in ('dense','sparse','scalar') for s in ('mean','median','mode') for i in (True,False) for u in (None,1,2,5)]      # 5: a window longer than the data

@obligation('C11','impute', bounds={'quick':"N=3; dense (2 features, second numeric or string), sparse (a,b; b present per row by choice) or scalar contexts; each numeric cell symbolic or None incl. the first row; stat in {mean,median,mode}; indicator on/off; using in {None,1,2,5}",
                                    'thorough':"same"},
            functions=FUNCS, params=impute_params, classify=_classify, budget={'quick':80,'thorough':900})
def impute(sym, cont, stat, ind, using, n):
    second = sym.choice('second', ['num','str']) if cont == 'dense' else 'num'
    miss = [[sym.flag(f'miss{i}_{j}') for j in range(2)] for i in range(n)]
    pres = [sym.flag(f'pres{i}') if cont == 'sparse' else True for i in range(n)]
    rows, inter = [], []
    for i in range(n):
        x = None if miss[i][0] else (val(sym, f'x{i}') if stat != 'mode' else sym.int(f'x{i}', 0, 2))
        y = ('s' if second == 'str' else (None if miss[i][1] else (val(sym, f'y{i}') if stat != 'mode' else sym.int(f'y{i}', 0, 2))))
        rows.append((x,y))
        if cont == 'dense': ctx = [x, y]
        elif cont == 'sparse':
            ctx = {'a': x}
            if pres[i]: ctx['b'] = y
        else: ctx = x
        inter.append({'context': ctx, 'actions': [1,2], 'rewards': [1, 0], 'extra': i})
    out = list(Impute(stat, ind, using).filter(iter(inter)))
    sym.check(len(out) == n, "Impute changed the number of interactions")
    W = n if using is None else min(using, n)
    nf = 1 if cont == 'scalar' else 2
    def window(j):
        if cont != 'sparse' or j == 0: return [rows[i][j] for i in range(W)]
        return [(rows[i][1] if pres[i] else 0) for i in range(W)]
    stats, flagged = {}, []
    for j in range(nf):
        col = window(j)
        if j == 1 and second == 'str' and stat != 'mode': stats[j] = None; continue
        if cont == 'sparse' and j == 1 and not any(pres[:W]): stats[j] = None; continue      # key never seen in the window
        vs = [v for v in col if v is not None]
        if not vs: stats[j] = None; continue
        stats[j] = sum(vs)/len(vs) if stat == 'mean' else ref_median(vs) if stat == 'median' else ref_mode(sym, vs)
        had_missing = any(v is None for v in col)
        if ind and had_missing: flagged.append(j)
    for i in range(n):
        got = out[i]['context']
        for j in range(nf):
            x = rows[i][j]
            if cont == 'sparse':
                if j == 1 and not pres[i]:
                    sym.check('b' not in got, "absent sparse key appeared after Impute"); continue
                g = got['ab'[j]]
            elif cont == 'dense': g = got[j]
            else: g = got[0] if isinstance(got, list) else got
            if x is not None: sym.check(g == x if not isinstance(x,str) else g == 's', f"row {i} feature {j}: a non-missing value was changed by Impute")
            elif stats[j] is None: sym.check(g is None, f"row {i} feature {j}: imputed although no statistic exists on the window")
            elif stat == 'mode': sym.check(g is not None and any(g == m for m in stats[j]), f"row {i} feature {j}: missing value not replaced by a window mode (using={using})")
            else: sym.check(g is not None and g == stats[j], f"row {i} feature {j}: missing value not replaced by the window {stat} (using={using})")
        # indicator features
        if cont == 'dense':
            sym.check(len(got) == 2+len(flagged), f"row {i}: {len(got)-2} indicator features, expected one per feature with missing values in the window ({len(flagged)})")
            for k,j in enumerate(flagged):
                if 2+k < len(got): sym.check(got[2+k] == (1 if rows[i][j] is None else 0), f"row {i}: indicator of feature {j}")
        elif cont == 'sparse':
            exp_keys = {f"{'ab'[j]}_is_missing" for j in flagged}
            sym.check({k for k in got if k.endswith('_is_missing')} == exp_keys, f"row {i}: indicator keys {sorted(k for k in got if k.endswith('_is_missing'))} expected {sorted(exp_keys)}")
            for j in flagged:
                k = f"{'ab'[j]}_is_missing"
                if k in got: sym.check(got[k] == (1 if (rows[i][j] is None and (j == 0 or pres[i])) else 0), f"row {i}: indicator {k}")
        elif stats[0] is None: pass        # whole window missing: degenerate, outside the claim
        else:
            if flagged: sym.check(isinstance(got, list) and len(got) == 2 and got[1] == (1 if rows[i][0] is None else 0), f"row {i}: scalar context with indicator")
            else: sym.check(not isinstance(got, list), f"row {i}: scalar context got an indicator although nothing was missing in the window")
        sym.check(out[i]['actions'] == [1,2] and out[i]['extra'] == i and out[i]['rewards'] == [1,0], "actions/rewards/other fields altered by Impute")
    for i,d in enumerate(inter):
        c = d['context']
        orig = [rows[i][0], rows[i][1]] if cont == 'dense' else ({'a':rows[i][0], **({'b':rows[i][1]} if pres[i] else {})} if cont == 'sparse' else rows[i][0])
        if cont == 'dense': same = len(c) == 2 and all((a is b) or (a is not None and b is not None and a == b) for a,b in zip(c,orig))
        elif cont == 'sparse': same = set(c) == set(orig) and all((c[k] is orig[k]) or (c[k] is not None and orig[k] is not None and c[k] == orig[k]) for k in orig)
        else: same = (c is orig) or (c is not None and orig is not None and c == orig)
        sym.check(same, "Impute modified the interactions it was given")

# ---------------------------------------------------------------------------------------------------
class _Env:
    def __init__(self, I, name): self.I = I; self.name = name
    @property
    def params(self): return {'n': self.name}
    def read(self): return iter([dict(d, context=list(d['context'])) for d in self.I])

@obligation('C11','shortcuts', bounds="Environments.scale / Environments.impute over TWO environments (2 interactions, 2 dense features, symbolic values, one missing): each environment is fitted on its own window; impute with a list of statistics applies all of them in order ('mode' then 'mean' on a string+numeric context)",
            functions=FUNCS, params=lambda tier: [dict(which=w) for w in ('scale','scale_twice','impute_list')])
def shortcuts(sym, which):
    A = [{'context':[val(sym,'a0'), val(sym,'b0')], 'actions':[1,2], 'rewards':[1,0]}, {'context':[val(sym,'a1'), val(sym,'b1')], 'actions':[1,2], 'rewards':[1,0]}]
    B = [{'context':[val(sym,'c0'), val(sym,'d0')], 'actions':[1,2], 'rewards':[1,0]}, {'context':[val(sym,'c1'), val(sym,'d1')], 'actions':[1,2], 'rewards':[1,0]}]
    if which in ('scale','scale_twice'):
        envs = Environments(_Env(A,'A'), _Env(B,'B')).scale('min','minmax')
        order = [0,1] if which == 'scale' else [1,0,1]
        for k in order:
            src = [A,B][k]
            out = list(envs._envs[k].read())
            for j in range(2):
                vs = [src[0]['context'][j], src[1]['context'][j]]
                lo, hi = min(vs), max(vs)
                for i in range(2):
                    exp = (vs[i]-lo) if hi-lo < 0.000001 else (vs[i]-lo)/(hi-lo)
                    sym.check(out[i]['context'][j] == exp, f"environment {'AB'[k]} feature {j}: not scaled with its own window statistics")
    else:
        C = [{'context':['s', val(sym,'a0')], 'actions':[1,2], 'rewards':[1,0]}, {'context':[None, None], 'actions':[1,2], 'rewards':[1,0]},
             {'context':['s', val(sym,'a2')], 'actions':[1,2], 'rewards':[1,0]}]
        envs = Environments(_Env(C,'C')).impute(['mode','mean'], indicator=False)
        out = list(envs._envs[0].read())
        sym.check(out[1]['context'][0] == 's', "impute(['mode','mean']): the string feature was not imputed by the first statistic (mode)")
        sym.check(out[1]['context'][1] is not None, "impute(['mode','mean']): the numeric feature was not imputed")
        # the shortcut with a list equals the chain of the individual filters, for every order, indicator and window
        stats = sym.choice('stats', [['mode','mean'],['mean','mode'],['median','mode'],['mean']]); ind = sym.flag('indicator'); using = sym.choice('using', [None, 2])
        C2 = [{'context':['s', 1.5, 'x'], 'actions':[1,2], 'rewards':[1,0]}, {'context':[None, None, 'y'], 'actions':[1,2], 'rewards':[1,0]},
              {'context':['t', 4, None], 'actions':[1,2], 'rewards':[1,0]}, {'context':['t', None, 'y'], 'actions':[1,2], 'rewards':[1,0]}]
        got = [i['context'] for i in Environments(_Env(C2,'C')).impute(stats, indicator=ind, using=using)._envs[0].read()]
        chain = [dict(c) for c in C2]
        for st in stats: chain = list(Impute(st, ind, using).filter(chain))
        exp = [i['context'] for i in chain]
        sym.check(len(got) == len(exp) and all(len(g) == len(e) and all(x == y for x,y in zip(g,e)) for g,e in zip(got,exp)), f"Environments.impute({stats}, indicator={ind}, using={using}) differs from applying the Impute filters one after the other: {got} vs {exp}")

# ---------------------------------------------------------------------------------------------------
@obligation('C11','scale_nan', bounds="NOT symbolic values: 4 interactions with concrete numeric features, one cell of the first feature being NaN at a solver-enumerated position (incl. the first interaction); dense / scalar / sparse contexts; every shift in {0,min,mean,median} x scale in {2,minmax,std,iqr,maxabs} x using in {None,2,3}: the NaN cell stays NaN, every other cell equals (x+shift)*scale with the statistics of the non-NaN window values (1e-9)",
            functions=FUNCS, params=lambda tier: [dict(shift=sh, scale=sc) for sh in (0,'min','mean','median') for sc in (2,'minmax','std','iqr','maxabs')], classify=_classify)
def scale_nan(sym, shift, scale):
    import math
    cont = sym.choice('cont', ['dense','scalar','sparse'])
    if cont == 'sparse' and shift != 0: sym.assume(False)
    pos = sym.choice('nan_at', [0,1,2,3]); using = sym.choice('using', [None,2,3])
    xs = [1.0, 4.0, -2.0, 7.0]; ys = [5, 7, 9, 6]
    xs[pos] = float('nan')
    inter = []
    for i in range(4):
        ctx = [xs[i], ys[i]] if cont == 'dense' else xs[i] if cont == 'scalar' else {'a': xs[i], 'b': ys[i]}
        inter.append({'context': ctx, 'actions': [1,2], 'rewards': [1,0]})
    try: out = list(Scale(shift, scale, 'context', using).filter(iter(inter)))
    except Exception as e: sym.fail(f"Scale({shift!r},{scale!r},using={using}) raised {type(e).__name__}: {e} on a {cont} feature holding one NaN (row {pos})")
    W = 4 if using is None else using
    vs = [v for v in xs[:W] if v == v]
    ss = ref_shift_scale(sym, vs, shift, scale)
    for i in range(4):
        got = out[i]['context'][0] if cont == 'dense' else out[i]['context'] if cont == 'scalar' else out[i]['context']['a']
        if i == pos: sym.check(got != got, f"row {i}: the NaN cell became {got!r}")
        elif ss is not None: sym.check(abs(got - (xs[i]+ss[0])*ss[1]) < 1e-9, f"row {i}: {got!r} is not (x+shift)*scale = {(xs[i]+ss[0])*ss[1]!r} with shift={shift}, scale={scale} over the non-NaN values {vs} of the first {using} interactions")
        if cont != 'scalar':
            gy = out[i]['context'][1] if cont == 'dense' else out[i]['context']['b']
            s2 = ref_shift_scale(sym, [float(v) for v in ys[:W]], shift, scale)
            if s2 is not None: sym.check(abs(gy - (ys[i]+s2[0])*s2[1]) < 1e-9, f"row {i}: the NaN-free feature is scaled wrongly")

"""C20 Feature interaction encoding equals the mathematical polynomial expansion."""
import re, itertools
from collections import Counter
from vf.run import obligation
from symx import is_sym

from coba.encodings import InteractionsEncoder

EXPLANATION = ("InteractionsEncoder.encode runs on symbolic integer feature values; every output entry is a z3 polynomial term. "
               "For each term of the interaction list the outputs are matched one-to-one with the reference monomials "
               "(itertools.combinations_with_replacement per namespace, full outer product across namespaces) by asking z3 for "
               "validity of the polynomial identity out[k]==monomial for ALL integers; a missing/duplicate/extra monomial is reported "
               "with distinct-prime feature values as witness and replayed on the real code.")
ASSUMPTIONS = ["feature values are mathematical integers (floats only enter through concrete constants)",
               "structure (term list, vector lengths, container kinds) enumerated within the stated bounds, values universally quantified",
               "a namespace named by a term but not passed to encode() is outside the claim (statement covers empty/None, not absent)"]
FUNCS = ['coba.encodings:InteractionsEncoder.__init__','coba.encodings:InteractionsEncoder.encode',
         'coba.encodings:InteractionsEncoder._pows','coba.encodings:InteractionsEncoder._cross']

PRIMES = [2,3,5,7,11,13,17,19,23,29,31,37]

SINGLE = ['x','a','xx','aa','xa','ax','xxx','aaa','xxa','xaa','axx','xxxx','aaaa','xxaa','xxxa','xaaa','xax','axa','axax','xaax']     # incl. spellings whose repeated letter is not adjacent
MULTI  = [['x','a'],['a','x','xa'],['xx','x'],[1,'x'],['x',2,'xa'],['aa','xa',0.5],['xxx','aa','x'],['a','xxa','aaa'],[3]]

def term_lists(tier):
    ts = [[t] for t in SINGLE] + MULTI
    if tier == 'thorough':
        ts += [['xxxxx'],['aaaaa'],['xxxaa'],['xxaaa'],['xxxx','aaaa','xxaa'],['x','xx','xxx','xxxx'],[1,'a','aa','aaa','xa','xxa']]
    return ts

def params(tier):
    L = 4 if tier=='quick' else 5
    ps = []
    for ti,t in enumerate(term_lists(tier)):
        used = set(''.join(s for s in t if isinstance(s,str)))
        for nx in (range(0,L+1) if 'x' in used else [1]):
            for na in (range(0,L+1) if 'a' in used else [1]):
                ps.append(dict(ti=ti, nx=nx, na=na))
    return ps

def ref_monomials(term, names):
    """Reference: list of monomials (each a tuple of feature names) for one interaction term."""
    cnt = Counter(term)
    per_ns = []
    for ns in dict.fromkeys(term):       # namespaces in order of first appearance
        per_ns.append(list(itertools.combinations_with_replacement(names[ns], cnt[ns])))
    out = []
    for combo in itertools.product(*per_ns):
        out.append(tuple(itertools.chain.from_iterable(combo)))
    return out

def product(vals):
    r = 1
    for v in vals: r = r*v
    return r

def classify(v):
    w = v['what']
    return re.sub(r'\d+','N',w.split('::')[0])[:90]

@obligation('C20','dense', bounds={'quick':"term lists: 16 single terms over {x,a} up to degree 4 + 9 mixed lists with constants; vector lengths 0..4 per namespace; values: all integers",
                                   'thorough':"plus degree-5 terms and longer lists; vector lengths 0..5"},
            functions=FUNCS, params=params, classify=classify)
def dense(sym, ti, nx, na):
    terms = term_lists('thorough')[ti]
    kind_x = sym.choice('kind_x', ['list','tuple','scalar','none'] if nx==1 else (['list','tuple','none'] if nx==0 else ['list','tuple']))
    kind_a = sym.choice('kind_a', ['list','scalar'] if na==1 else (['list','none'] if na==0 else ['list']))
    names = {'x':[f'x{i}' for i in range(nx)] if kind_x != 'none' else [], 'a':[f'a{i}' for i in range(na)] if kind_a != 'none' else []}
    witness = {}
    vals = {}
    pi = 0
    for ns in 'xa':
        for nme in names[ns]:
            vals[nme] = sym.int(nme)
            witness[nme] = PRIMES[pi]; pi += 1
    def container(ns, kind):
        v = [vals[n] for n in names[ns]]
        if kind == 'none': return None
        if kind == 'scalar': return v[0]
        return tuple(v) if kind == 'tuple' else v
    got = InteractionsEncoder(terms).encode(x=container('x',kind_x), a=container('a',kind_a))
    sym.check(isinstance(got, list), "dense inputs must give a vector", model=witness)
    # candidate positions from a concrete run on distinct primes (only a pre-filter: the verdict is z3's identity check)
    svals = dict(vals)
    vals_c = witness
    def container_c(ns, kind):
        v = [witness[n] for n in names[ns]]
        if kind == 'none': return None
        if kind == 'scalar': return v[0]
        return tuple(v) if kind == 'tuple' else v
    got_c = InteractionsEncoder(terms).encode(x=container_c('x',kind_x), a=container_c('a',kind_a))
    const = sum(t for t in terms if not isinstance(t,str))
    exp_terms = []
    for t in terms:
        if isinstance(t,str): exp_terms.append(ref_monomials(t, names))
    exp_len = sum(len(m) for m in exp_terms) + (1 if const else 0)
    sym.check(len(got) == exp_len, f"dense: {len(got)} outputs, expansion has {exp_len} monomials :: terms={terms} nx={nx} na={na}", model=witness)
    pos = 0
    if const:
        sym.check(got[0] == const, "dense: constant must come first", model=witness); pos = 1
    for t,monos in zip([t for t in terms if isinstance(t,str)], exp_terms):
        seg = got[pos:pos+len(monos)]; seg_c = got_c[pos:pos+len(monos)] if len(got_c)==len(got) else None; pos += len(monos)
        # every reference monomial exactly once within this term's segment (order inside a term is free)
        unused = list(range(len(seg)))
        for m in monos:
            target = product([vals[n] for n in m])
            pc = product([witness[n] for n in m])
            cands = [k for k in unused if seg_c is None or seg_c[k] == pc]
            hit = next((k for k in cands if sym.valid(seg[k] == target)), None)
            if hit is None:
                sym.fail(f"dense: monomial {'*'.join(m)} of term '{t}' missing or duplicated :: terms={terms} nx={nx} na={na}", model=witness)
            unused.remove(hit)

@obligation('C20','sparse', bounds={'quick':"same term lists; namespaces given as mappings (string keys), vectors containing a string feature, or a bare string; lengths 0..3; values: all integers",
                                    'thorough':"lengths 0..4"},
            functions=FUNCS, classify=classify,
            params=lambda tier: [p for p in params(tier) if p['nx'] <= (3 if tier=='quick' else 4) and p['na'] <= (3 if tier=='quick' else 4)])
def sparse(sym, ti, nx, na):
    terms = term_lists('thorough')[ti]
    # which namespace carries the sparse trigger
    kind_x = sym.choice('kind_x', ['map','list','liststr'] if nx else ['map','list','none'])
    kind_a = sym.choice('kind_a', ['map','list','str'] if na==1 else (['map','list'] if na else ['map','none']))
    sparse_trigger = kind_x in ('map','liststr') or kind_a in ('map','str')
    sym.assume(sparse_trigger)
    keys = {'x':['p','q','r','s','t'][:nx], 'a':['u','v','w','y','z'][:na]}
    witness, vals, pi = {}, {}, 0
    feat = {}          # full feature name in the output key -> value (symbolic or 1 for strings)
    def build(ns, kind, n):
        nonlocal pi
        names = []
        if kind == 'none': return None, names
        if kind == 'str':
            feat[f'{ns}0S'] = 1
            return 'S', [f'{ns}0S']
        vs = []
        for i in range(n):
            nm = f'{ns}v{i}'
            vals[nm] = sym.int(nm); witness[nm] = PRIMES[pi]; pi += 1
            vs.append(vals[nm])
        if kind == 'map':
            for k,v in zip(keys[ns],vs): feat[f'{ns}{k}'] = v; names.append(f'{ns}{k}')
            return dict(zip(keys[ns],vs)), names
        if kind == 'list':
            for i,v in enumerate(vs): feat[f'{ns}{i}'] = v; names.append(f'{ns}{i}')
            return list(vs), names
        if kind == 'liststr':   # last element replaced by a string feature
            out = list(vs)
            out[-1] = 'S'
            for i,v in enumerate(vs[:-1]): feat[f'{ns}{i}'] = v; names.append(f'{ns}{i}')
            feat[f'{ns}{n-1}S'] = 1; names.append(f'{ns}{n-1}S')
            return out, names
    X, xn = build('x', kind_x, nx)
    A, an = build('a', kind_a, na)
    names = {'x':xn, 'a':an}
    got = InteractionsEncoder(terms).encode(x=X, a=A)
    sym.check(isinstance(got, dict), "sparse/string inputs must give a mapping", model=witness)
    const = sum(t for t in terms if not isinstance(t,str))
    exp = {}
    allnames = sorted(feat, key=len, reverse=True)
    for t in terms:
        if not isinstance(t,str): continue
        for m in ref_monomials(t, names):
            exp[tuple(sorted(m))] = product([feat[n] for n in m])
    if const:
        sym.check('const' in got and got['const'] == const, "sparse: constant entry", model=witness)
    body = {k:v for k,v in got.items() if k != 'const'}
    rx = re.compile('|'.join(re.escape(n) for n in allnames)) if allnames else None
    seen = {}
    for k,v in body.items():
        parts = rx.findall(k) if rx else []
        if ''.join(parts) != k:
            sym.fail(f"sparse: key {k!r} does not spell participating features :: terms={terms}", model=witness)
        ms = tuple(sorted(parts))
        if ms not in exp:
            sym.fail(f"sparse: key {k!r} is not a monomial of the expansion :: terms={terms} nx={nx} na={na}", model=witness)
        if ms in seen:
            sym.fail(f"sparse: monomial {ms} appears under two keys :: terms={terms}", model=witness)
        seen[ms] = k
        if not sym.valid(v == exp[ms]):
            sym.fail(f"sparse: value under key {k!r} is not the product of its features :: terms={terms}", model=witness)
    # a repeated term yields the same keys again (dict) -> compare as sets
    missing = [m for m in exp if m not in seen]
    sym.check(not missing, f"sparse: {len(missing)} monomials missing e.g. {missing[:1]} :: terms={terms} nx={nx} na={na}", model=witness)

@obligation('C20','dense_eq_sparse', bounds="term lists as above; lengths 1..3; the same data as vector and as mapping with keys '0','1',..",
            functions=FUNCS, classify=classify,
            params=lambda tier: [p for p in params(tier) if 1 <= p['nx'] <= 3 and 1 <= p['na'] <= 3])
def dense_eq_sparse(sym, ti, nx, na):
    terms = term_lists('thorough')[ti]
    witness, pi = {}, 0
    xs, as_ = [], []
    for i in range(nx):
        xs.append(sym.int(f'x{i}')); witness[f'x{i}'] = PRIMES[pi]; pi += 1
    for i in range(na):
        as_.append(sym.int(f'a{i}')); witness[f'a{i}'] = PRIMES[pi]; pi += 1
    d = InteractionsEncoder(terms).encode(x=list(xs), a=list(as_))
    s = InteractionsEncoder(terms).encode(x={str(i):v for i,v in enumerate(xs)}, a={str(i):v for i,v in enumerate(as_)})
    const = sum(t for t in terms if not isinstance(t,str))
    dvals = d[1:] if const else d
    svals = [v for k,v in s.items() if k != 'const']
    # pairing candidates from a concrete run on distinct primes (pre-filter only; the verdict is z3's identity check)
    xc = [witness[f'x{i}'] for i in range(nx)]; ac = [witness[f'a{i}'] for i in range(na)]
    dc = InteractionsEncoder(terms).encode(x=list(xc), a=list(ac))
    sc = InteractionsEncoder(terms).encode(x={str(i):v for i,v in enumerate(xc)}, a={str(i):v for i,v in enumerate(ac)})
    dcv = dc[1:] if const else dc
    scv = [v for k,v in sc.items() if k != 'const']
    same_shape = len(dcv) == len(dvals) and len(scv) == len(svals)
    for i,v in enumerate(dvals):
        cands = [w for j,w in enumerate(svals) if not same_shape or scv[j] == dcv[i]]
        if not any(sym.valid(v == w) for w in cands):
            sym.fail(f"dense entry has no equal sparse entry :: terms={terms}", model=witness)
    for j,w in enumerate(svals):
        cands = [v for i,v in enumerate(dvals) if not same_shape or scv[j] == dcv[i]]
        if not any(sym.valid(v == w) for v in cands):
            sym.fail(f"sparse entry has no equal dense entry :: terms={terms}", model=witness)
    sym.check(True, "dense and sparse agree")

def _same(sym, a, b):
    if type(a) is not type(b): return False
    if isinstance(a, dict):
        return list(a.keys()) == list(b.keys()) and all(sym.valid(a[k] == b[k]) for k in a)
    return len(a) == len(b) and all(sym.valid(x == y) for x,y in zip(a,b))

@obligation('C20','reuse', bounds="one encoder instance, 2..3 consecutive encode() calls whose namespaces switch between vector / mapping / string / scalar / None; result of every call == result of a fresh encoder on the same input; terms from 8 lists; lengths 1..2",
            functions=FUNCS, classify=classify,
            params=lambda tier: [dict(ti=ti, ncalls=n) for ti in (0,2,4,6,8,16,18,20) for n in ((2,) if tier=='quick' else (2,3))])
def reuse(sym, ti, ncalls):
    terms = term_lists('thorough')[ti]
    kinds = ['vec','map','str','scalar','none','vecstr']
    enc = InteractionsEncoder(terms)
    witness, pi = {}, 0
    for c in range(ncalls):
        kx = sym.choice(f'kx{c}', kinds); ka = sym.choice(f'ka{c}', ['vec','map','scalar'])
        def mk(ns, kind):
            nonlocal pi
            vs = []
            for i in range(2):
                nm = f'{ns}{c}_{i}'; vs.append(sym.int(nm)); witness[nm] = PRIMES[pi % len(PRIMES)]; pi += 1
            return {'vec':list(vs), 'map':{'p':vs[0],'q':vs[1]}, 'str':'S', 'scalar':vs[0], 'none':None, 'vecstr':[vs[0],'T']}[kind]
        X, A = mk('x',kx), mk('a',ka)
        got = enc.encode(x=X, a=A)
        ref = InteractionsEncoder(terms).encode(x=X, a=A)
        sym.check(_same(sym, got, ref), f"call {c+1} on a reused encoder differs from a fresh encoder :: terms={terms}", model=witness)


@obligation('C20','reuse_in_place', bounds="one encoder instance, two consecutive encode() calls given the SAME list/dict objects, whose content (and for lists also length 1..3) is changed in place between the calls; the second result == a fresh encoder on the new content; terms from 8 lists",
            functions=FUNCS, classify=classify, params=lambda tier: [dict(ti=ti) for ti in (0,2,4,6,8,16,18,20)])
def reuse_in_place(sym, ti):
    terms = term_lists('thorough')[ti]
    enc = InteractionsEncoder(terms)
    kind = sym.choice('kind', ['vec','map'])
    n1 = sym.choice('n1', [1,2,3]); n2 = sym.choice('n2', [1,2,3])
    witness = {}
    def vals(tag, n):
        out = []
        for i in range(n):
            nm = f'{tag}{i}'; out.append(sym.int(nm)); witness[nm] = PRIMES[len(witness) % len(PRIMES)]
        return out
    x1, a1, x2, a2 = vals('x1_', n1), vals('a1_', 2), vals('x2_', n2), vals('a2_', 2)
    if kind == 'vec': X, A = list(x1), list(a1)
    else: X, A = {f'k{i}':v for i,v in enumerate(x1)}, {'p':a1[0],'q':a1[1]}
    first = enc.encode(x=X, a=A)
    sym.check(_same(sym, first, InteractionsEncoder(terms).encode(x=X, a=A)), f"first call differs from a fresh encoder :: terms={terms}", model=witness)
    if kind == 'vec': X[:] = x2; A[:] = a2
    else:
        X.clear()
        items = [(f'k{i}',v) for i,v in enumerate(x2)]
        if sym.flag('reordered'): items.reverse()                      # the same feature names may come back in another insertion order
        X.update(items)
        if sym.flag('a_reordered'): A.clear(); A.update([('q',a2[1]),('p',a2[0])])
        else: A.update({'p':a2[0],'q':a2[1]})
    got = enc.encode(x=X, a=A)
    ref = InteractionsEncoder(terms).encode(x=X, a=A)
    sym.check(_same(sym, got, ref), f"second call (same objects, content changed in place) differs from a fresh encoder on the new content :: terms={terms}", model=witness)

# ---------------------------------------------------------------------------------------------------
@obligation('C20','long_vectors', bounds="terms ['x','xa'] on the mapping path: x a list of L in {1023,1024,1025,2050} non-zero values of which the first and the last are symbolic integers, a = {'k': symbolic}; "
            "the result == the result for the same data given as a mapping {'0':..,'1':..} (every positional feature is present, whatever its position)",
            functions=FUNCS, classify=classify, params=lambda tier: [dict(L=L) for L in (1023,1024,1025,2050)])
def long_vectors(sym, L):
    terms = ['x','xa']
    x = [sym.int('x0')] + [2+(i % 7) for i in range(1, L-1)] + [sym.int('xl')]
    a = {'k': sym.int('a0')}
    sym.assume((x[0] != 0) & (x[-1] != 0) & (a['k'] != 0))
    witness = {'x0': 11, 'xl': 13, 'a0': 17}
    got = InteractionsEncoder(terms).encode(x=list(x), a=dict(a))
    ref = InteractionsEncoder(terms).encode(x={str(i): v for i,v in enumerate(x)}, a=dict(a))
    if not isinstance(got, dict): sym.fail(f"a namespace given as a mapping must give a mapping, got {type(got).__name__} :: terms={terms}", model=witness)
    missing = [k for k in ref if k not in got]; extra = [k for k in got if k not in ref]
    if missing or extra: sym.fail(f"long vector: {len(missing)} monomials missing (e.g. {missing[:2]}), {len(extra)} unexpected :: terms={terms} L={L}", model=witness)
    sym.check(len(ref) == 2*L, f"reference has {len(ref)} monomials for 2*{L}")
    for k in (f'x0', f'x{L-1}', f'x{L//2}'):
        for kk in [q for q in ref if q.startswith(k) and (q == k or not q[len(k)].isdigit())]:
            sym.check(got[kk] == ref[kk], f"long vector: monomial {kk} differs :: terms={terms} L={L}", model=witness)

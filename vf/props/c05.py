"""C05 Random streams are a pure, contract-respecting function of the seed."""
import builtins, types, math, itertools
import z3
from vf.run import obligation
import symx
from symx import is_sym, SymInt, SymReal, SymFP, SymBV, SymBool, And, Or, Not, Inconclusive

import coba.random as cr
from coba.random import CobaRandom

EXPLANATION = ("CobaRandom runs on a symbolic generator state (z3 Int / 64-bit BV) so one step from an arbitrary state covers every "
               "seed and stream position (the LCG step is proved to be a bijection on 30-bit states); uniforms are exact dyadic reals "
               "s/2^30; bounded contracts are z3 queries over all 2^30 states; random(min,max) is checked bit-exactly in the FP theory.")
ASSUMPTIONS = ["int() inside coba.random is replaced by an identity on proxies (module-level name), so a symbolic seed is not concretised",
               "s/2^30 for 0<=s<2^30 is exact in binary64, and n*u is exact whenever n*s < 2^53 (checked as a side obligation); under these real arithmetic equals float arithmetic",
               "shuffle/choice/gauss are checked for an ARBITRARY uniform stream on the 2^-30 grid in [0,1) (superset of / equal to the LCG's outputs by the bijection obligation)",
               "math.log/sqrt/cos/sin replaced by contract stubs (log defined iff x>0 else ValueError; sqrt iff x>=0; |cos|,|sin|<=1)",
               "weights of choice/choicew are exact dyadic reals k/8 in [0,4] (float rounding of weight sums outside the claim)",
               "seed=None, |bounds|>2^20, randoms(n,min,max) with non-default bounds (float.__mul__ is called unbound: not proxy-able), statistical quality: outside the claim"]
FUNCS = ['coba.random:CobaRandom.__init__','coba.random:CobaRandom._next_uniform','coba.random:CobaRandom._next_gaussian',
         'coba.random:CobaRandom.random','coba.random:CobaRandom.randoms','coba.random:CobaRandom.randint','coba.random:CobaRandom.randints',
         'coba.random:CobaRandom.shuffle','coba.random:CobaRandom.choice','coba.random:CobaRandom.choicew','coba.random:CobaRandom.gauss',
         'coba.random:CobaRandom.gausses','coba.random:seed','coba.random:random','coba.random:randint']

M = 2**30

class _IntMeta(type):
    def __instancecheck__(cls, x): return isinstance(x, builtins.int)
    def __call__(cls, x=0, *a):
        if isinstance(x, (SymInt,SymBV)): return x
        if isinstance(x, SymReal): return x.__trunc__()
        if isinstance(x, SymFP): return x.__floor__()
        return builtins.int(x, *a)
class _int(metaclass=_IntMeta):
    from_bytes = builtins.int.from_bytes
cr.int = _int            # module-level name in coba.random (shadowing the builtin there only)

def sym_seed(sym, name='seed'):
    return sym.int(name, 0, M-1)

def grid_u(sym, name):
    """arbitrary uniform on the 2^-30 grid in [0,1) as an exact real"""
    k = sym.int(name, 0, M-1)
    return k/M

def with_stream(r, us):
    r._randu = iter(us)
    r._randg = r._next_gaussian()
    return r

def state_of(r):
    return r._randu.gi_frame.f_locals['s']

# ---------------------------------------------------------------------------------------------------
@obligation('C05','lcg_bijection', bounds="all 2^30 states; 64-bit bit-vector arithmetic == Python ints because a*s+c < 2^57",
            functions=FUNCS[:2])
def lcg_bijection(sym):
    s1 = sym.bv('s1', 64, 0, M-1); s2 = sym.bv('s2', 64, 0, M-1)
    r1, r2 = CobaRandom(s1), CobaRandom(s2)
    next(r1._randu); next(r2._randu)
    n1, n2 = state_of(r1), state_of(r2)
    sym.check(n1 < M, "next state stays below 2^30")
    sym.check(Or(s1 == s2, n1 != n2), "LCG step is injective on 30-bit states (hence a bijection: every state is reached)")
    # no 64-bit wrap-around: the same step in mathematical integers
    si = sym.int('si', 0, M-1)
    ri = CobaRandom(si); next(ri._randu)
    raw = 116646453*si+9
    sym.check(raw < 2**57, "a*s+c fits in 57 bits (bit-vector model == Python int)")

@obligation('C05','uniform', bounds="all 2^30 states / seeds in [0,2^30); stream positions 1..3 from the seed",
            functions=FUNCS)
def uniform(sym):
    seed = sym_seed(sym)
    r = CobaRandom(seed)
    sym.check(r.seed == seed, "seed property returns the seed")
    for i in range(3):
        u = r.random()
        s = state_of(r)
        sym.check((u >= 0) & (u < 1), "uniform in [0,1)")
        sym.check(u == s/M, "uniform == state/2^30")
        sym.check((s >= 0) & (s < M), "state in range")
    us = r.randoms(2)
    sym.check(len(us) == 2, "randoms count")
    for u in us: sym.check((u >= 0) & (u < 1), "randoms in [0,1)")
    sym.check(r.randoms(0) == [], "randoms(0)")

@obligation('C05','randint', bounds="all states; a,b ints with |a|,|b|<=2^20, a<=b; randint and randints(n<=2)",
            functions=FUNCS, solver_timeout_ms=60000)
def randint(sym):
    seed = sym_seed(sym)
    a = sym.int('a', -2**20, 2**20); b = sym.int('b', -2**20, 2**20)
    sym.assume(a <= b)
    which = sym.choice('which', ['randint','randints','randints_a0'])
    r = CobaRandom(seed)
    if which == 'randint':
        outs = [r.randint(a,b)]
        s = state_of(r)
        sym.check((b-a+1)*s < 2**53, "exactness side condition: (b-a+1)*state < 2^53")
    elif which == 'randints':
        outs = r.randints(2,a,b)
    else:
        sym.assume(b >= 0)
        a = 0
        outs = r.randints(2,0,b)
    for o in outs:
        sym.check((o >= a) & (o <= b), f"{which} result in [a,b]")

def shuffle_params(tier):
    return [dict(n=n) for n in range(0, 6 if tier=='quick' else 8)]

@obligation('C05','shuffle', bounds={'quick':"n<=5 items given as list (optionally in place), tuple, iterator or generator; arbitrary uniform stream (each u_i any grid value in [0,1))",'thorough':"n<=7"},
            functions=FUNCS, params=shuffle_params, stubs=["uniform stream replaced by arbitrary grid values in [0,1)"])
def shuffle(sym, n):
    items = [object() for _ in range(n)]
    us = [grid_u(sym, f'k{i}') for i in range(max(0,n))]
    form = sym.choice('given_as', ['list','list_inplace','iterator','generator','tuple'])       # the input may be any iterable, incl. a one-shot one
    inplace = form == 'list_inplace'
    given = list(items)
    r = with_stream(CobaRandom(1), us)
    arg = {'list': given, 'list_inplace': given, 'iterator': iter(given), 'generator': (x for x in given), 'tuple': tuple(given)}[form]
    out = r.shuffle(arg, inplace=inplace) if form != 'generator' else r.shuffle(arg)
    out = list(out)
    sym.check(len(out) == n and sorted(map(id,out)) == sorted(map(id,items)), f"shuffle of a {form} with {n} items does not return a permutation of its input ({len(out)} items)")
    if inplace: sym.check(arg is given and given == out, "inplace shuffles the given container")
    else: sym.check(given == items, "shuffle(inplace=False) leaves the input untouched")

@obligation('C05','shuffle_lcg', bounds="n=3 items, real LCG stream from every seed", functions=FUNCS)
def shuffle_lcg(sym):
    seed = sym_seed(sym)
    items = ['p','q','r']
    out = CobaRandom(seed).shuffle(items)
    sym.check(sorted(out) == items, "shuffle returns a permutation (real stream)")
    out2 = CobaRandom(seed).shuffle(items)
    sym.check(out == out2, "shuffle is determined by the seed")

def choice_params(tier):
    return [dict(n=n, weighted=w) for n in range(1, 4 if tier=='quick' else 5) for w in (False,True)]

def _classify_choice(v):
    m = v['model']
    if m.get('k0') == 0: return "uniform-draw-exactly-0:chosen member has non-zero weight"
    return v['what'][:80]

@obligation('C05','choice', bounds={'quick':"n<=3 members; weights k/8 in [0,4] not all zero (zeros allowed); arbitrary grid uniform",'thorough':"n<=4"},
            functions=FUNCS, params=choice_params, classify=_classify_choice, stubs=["uniform stream replaced by arbitrary grid values in [0,1)"])
def choice(sym, n, weighted):
    seq = [object() for _ in range(n)]
    u = grid_u(sym, 'k0')
    fn = sym.choice('fn', ['choice','choicew'])
    r = with_stream(CobaRandom(1), [u])
    if not weighted:
        if fn == 'choice':
            got = r.choice(seq)
            sym.check(any(got is s for s in seq), "choice returns a member")
        else:
            got, w = r.choicew(seq)
            sym.check(any(got is s for s in seq), "choicew returns a member")
            sym.check(w == 1/n, "choicew unweighted weight == 1/n")
        return
    ws = [sym.real(f'w{i}', 0, 4, denom=8) for i in range(n)]
    if n == 3 and sym.flag('dup'): seq = ['a','b','a']      # ==-equal members carrying different weights
    tot = 0
    for w in ws: tot = tot + w
    sym.assume(tot > 0)
    if fn == 'choice':
        got = r.choice(seq, ws); w = None
    else:
        got, w = r.choicew(seq, ws)
    # existential oracle (no tie-break pinned): some position j holds the returned member, has non-zero weight,
    # carries exactly the returned weight and is an inverse-CDF position for u: cum_{j-1} <= u*tot <= cum_j
    ok = False
    lo = 0
    for j in range(n):
        c = And(ws[j] > 0, u*tot >= lo, u*tot <= lo+ws[j])
        if seq[j] is got or seq[j] == got:
            ok = Or(ok, c if w is None else And(c, w == ws[j]))
        lo = lo + ws[j]
    sym.check(ok, "choice/choicew: returned (member, weight) is not a non-zero-weight inverse-CDF member with exactly its weight")

def _inv_cdf_ok(seq, ws, tot, u, got, w):
    ok = False; lo = 0
    for j in range(len(seq)):
        c = And(ws[j] > 0, u*tot >= lo, u*tot <= lo+ws[j])
        if seq[j] is got or seq[j] == got:
            ok = Or(ok, c if w is None else And(c, w == ws[j]))
        lo = lo + ws[j]
    return ok

@obligation('C05','choice_reuse', bounds="n in {2,3} members; ONE weights list object (and one members list) passed to two consecutive choice/choicew calls of one generator and changed in place in between (weights k/8 in [0,4], zeros allowed); arbitrary grid uniforms: the second call obeys the weights it was given, not the earlier ones",
            functions=FUNCS, params=lambda tier: [dict(n=n) for n in (2,3)], classify=_classify_choice, stubs=["uniform stream replaced by arbitrary grid values in [0,1)"])
def choice_reuse(sym, n):
    seq = [f'm{i}' for i in range(n)]
    u1, u2 = grid_u(sym, 'k0'), grid_u(sym, 'k1')
    r = with_stream(CobaRandom(1), [u1, u2])
    fn = sym.choice('fn', ['choice','choicew'])
    w1 = [sym.real(f'v{i}', 0, 4, denom=8) for i in range(n)]
    w2 = [sym.real(f'w{i}', 0, 4, denom=8) for i in range(n)]
    t1 = 0; t2 = 0
    for w in w1: t1 = t1 + w
    for w in w2: t2 = t2 + w
    sym.assume(t1 > 0); sym.assume(t2 > 0)
    ws = list(w1)
    if fn == 'choice': r.choice(seq, ws)
    else: r.choicew(seq, ws)
    ws[:] = w2                                   # same list object, new content
    if fn == 'choice': got, w = r.choice(seq, ws), None
    else: got, w = r.choicew(seq, ws)
    sym.check(_inv_cdf_ok(seq, w2, t2, u2, got, w), "choice/choicew (second call, weights list changed in place): returned (member, weight) is not a non-zero-weight inverse-CDF member of the weights given to THIS call")

class _MathStub:
    """math.* by contract (used only inside coba.random while the gauss obligation runs)."""
    pi = math.pi
    def __init__(self, sym): self.sym = sym; self.n = 0
    def _fresh(self, tag, lo=None, hi=None):
        self.n += 1
        return self.sym.real(f'{tag}{self.n}', lo, hi)
    def log(self, x):
        if not is_sym(x): return math.log(x)
        if x <= 0: raise ValueError("math domain error")
        L = self._fresh('log')
        self.sym.assume(Or(And(x < 1, L < 0), And(x == 1, L == 0), And(x > 1, L > 0)))
        return L
    def sqrt(self, x):
        if not is_sym(x): return math.sqrt(x)
        if x < 0: raise ValueError("math domain error")
        return self._fresh('sqrt', 0)
    def cos(self, x): return self._fresh('cos', -1, 1)
    def sin(self, x): return self._fresh('sin', -1, 1)
    floor = staticmethod(math.floor)

def _classify_gauss(v):
    m = v['model']
    if any(m.get(k) == 0 for k in ('k0','k2')): return "uniform-draw-exactly-0:gauss raises"
    return v['what'][:80]

@obligation('C05','gauss', bounds="arbitrary grid uniforms; gauss(), gauss(mu,sigma), gausses(n<=3); libm by contract",
            functions=FUNCS, classify=_classify_gauss,
            stubs=["math.log/sqrt/cos/sin contract stubs","uniform stream replaced by arbitrary grid values in [0,1)"])
def gauss(sym):
    n = sym.choice('n', [1,2,3])
    us = [grid_u(sym, f'k{i}') for i in range(4)]
    old = cr.math
    cr.math = _MathStub(sym) if hasattr(sym,'branch') else math
    try:
        r = with_stream(CobaRandom(1), itertools.chain(us, itertools.repeat(0.5)))
        mu = sym.real('mu', -4, 4, denom=4); sigma = sym.real('sigma', 0, 4, denom=4)
        if n == 1: outs = [r.gauss(mu, sigma)]
        else: outs = r.gausses(n, mu, sigma)
    finally:
        cr.math = old
    sym.check(len(outs) == n, "gausses count")
    for o in outs:
        sym.check(isinstance(o, float) and (o == o), "gauss returns a finite float")

METHODS = ['random','random2','randint','randoms','choice','shuffle']

def _call(r, m):
    if m == 'random':  return [r.random()]
    if m == 'random2': return [r.random(0,2)]
    if m == 'randint': return [r.randint(0,7)]
    if m == 'randoms': return list(r.randoms(2))
    if m == 'choice':  return [r.choicew([5,6,7])[1], r.random()]
    if m == 'shuffle': r.shuffle([1,2]); return [r.random()]

def _same_terms(sym, a, b):
    return len(a) == len(b) and all(sym.valid(x == y) for x,y in zip(a,b))

def purity_params(tier):
    return [dict(steps=k) for k in ((2,3) if tier=='quick' else (2,3,4,5))]

@obligation('C05','purity', bounds={'quick':"two instances with independent symbolic seeds + the module-level generator; <=3 calls, method and target of each call chosen by the solver-enumerated schedule; python's random module reseeded/used in between",
                                    'thorough':"<=4 calls"},
            functions=FUNCS, params=purity_params)
def purity(sym, steps):
    import random as pyrandom
    s1, s2, s3 = sym_seed(sym,'seedA'), sym_seed(sym,'seedB'), sym_seed(sym,'seedM')
    sched = [(sym.choice(f'who{i}', ['A','B','M']), sym.choice(f'm{i}', METHODS[:4] if steps>2 else METHODS)) for i in range(steps)]
    A, B = CobaRandom(s1), CobaRandom(s2)
    cr.seed(s3)
    got = {'A':[], 'B':[], 'M':[]}
    for who,m in sched:
        pyrandom.seed(7); pyrandom.random()
        if who == 'M':
            modr = types.SimpleNamespace(random=cr.random, randint=cr.randint, randoms=cr.randoms, choicew=cr.choicew, shuffle=cr.shuffle)
            got['M'] += _call(modr, m)
        else:
            got[who] += _call(A if who=='A' else B, m)
    for who,seed in (('A',s1),('B',s2),('M',s3)):
        solo = CobaRandom(seed)
        ref = []
        for w,m in sched:
            if w == who: ref += _call(solo, m)
        sym.check(_same_terms(sym, got[who], ref), f"stream of generator {who} differs from a solo run with the same seed")

@obligation('C05','seeds', bounds="integral-float seeds k.0 for symbolic... enumerated representatives: ints {0,1,7,2^30+5,-3}, floats {0.0,7.0,1.5}, str {'a','seed'}; two constructions agree; int and integral float agree",
            functions=FUNCS)
def seeds(sym):
    rep = sym.choice('rep', [0,1,7,2**30+5,-3,0.0,7.0,1.5,'a','seed'])
    a, b = CobaRandom(rep), CobaRandom(rep)
    xs, ys = a.randoms(3), b.randoms(3)
    sym.check(xs == ys, "same seed, same stream")
    for x in xs: sym.check(0 <= x < 1, "uniform in [0,1)")
    if isinstance(rep, float) and rep.is_integer():
        sym.check(CobaRandom(int(rep)).randoms(3) == xs, "integral float seed == int seed")
        sym.check(a.seed == int(rep), "seed property")
    if isinstance(rep, int):
        sym.check(a.seed == rep, "seed property")
    if isinstance(rep, (str,)) or (isinstance(rep,float) and not rep.is_integer()):
        sym.check(0 <= a.seed < 2**20, "str/float seeds hash into [0,2^20)")
    # symbolic seed: zero is a seed like any other
    s = sym_seed(sym)
    c, d = CobaRandom(s), CobaRandom(s)
    sym.check(sym.valid(c.random() == d.random()), "two instances with the same (symbolic) seed agree")
    sym.check(c.seed == s, "seed property (symbolic)")

@obligation('C05','seeds_other_process', bounds="seed representatives ints {0,7,-3}, floats {7.0,1.5,0.1}, str {'a','seed','abc'}: the first 3 uniforms and the .seed property equal those computed by a fresh interpreter started with another PYTHONHASHSEED",
            functions=FUNCS)
def seeds_other_process(sym):
    import subprocess, sys, json, os
    rep = sym.choice('rep', [0,7,-3,7.0,1.5,0.1,'a','seed','abc'])
    hs = sym.choice('hashseed', ['1','4242'])
    a = CobaRandom(rep)
    here = [a.seed, a.randoms(3)]
    env = dict(os.environ); env['PYTHONHASHSEED'] = hs
    out = subprocess.run([sys.executable, '-W', 'ignore', '-c', f"import json; from coba.random import CobaRandom; r=CobaRandom({rep!r}); print('OUT'+json.dumps([r.seed, r.randoms(3)]))"], capture_output=True, text=True, env=env, timeout=120)
    line = next((l for l in out.stdout.splitlines() if l.startswith('OUT')), None)
    if line is None: raise Inconclusive(f"fresh interpreter failed: {out.stderr[-200:]}")
    there = json.loads(line[3:])
    sym.check(here == there, f"CobaRandom({rep!r}) gives seed/stream {here} here but {there} in a fresh interpreter with PYTHONHASHSEED={hs}: not a function of the seed")

@obligation('C05','seeded_filters', bounds="pipes.Shuffle, pipes.Reservoir(count 2), environments.Shuffle and Riffle built with seed in {0,1,7,'abc'} on 5 items: reading the SAME filter object twice, a second object with the same seed, and a pickled copy give the same order",
            functions=FUNCS+['coba.pipes.filters:Reservoir.filter','coba.pipes.filters:Shuffle.filter'])
def seeded_filters(sym):
    import pickle
    import coba.pipes.filters as pf, coba.environments.filters as ef
    seed = sym.choice('seed', [0,1,7,'abc'])
    which = sym.choice('filter', ['pipes.Shuffle','pipes.Reservoir','env.Shuffle','env.Riffle'])
    if seed == 'abc' and which != 'pipes.Reservoir': sym.assume(False)        # the Shuffle/Riffle filters document integer seeds only
    mk = {'pipes.Shuffle': lambda: pf.Shuffle(seed), 'pipes.Reservoir': lambda: pf.Reservoir(2, seed=seed), 'env.Shuffle': lambda: ef.Shuffle(seed), 'env.Riffle': lambda: ef.Riffle(2, seed)}[which]
    if which.startswith('env'): data = lambda: [{'context': i, 'actions': [0,1], 'rewards': [0,1]} for i in range(5)]
    else: data = lambda: list(range(5))
    key = (lambda out: [d['context'] for d in out]) if which.startswith('env') else (lambda out: list(out))
    f = mk()
    a1 = key(f.filter(data())); a2 = key(f.filter(data())); b = key(mk().filter(data())); c = key(pickle.loads(pickle.dumps(f)).filter(data()))
    sym.check(a1 == a2, f"{which}(seed={seed!r}): the second read through the same object gives {a2}, the first gave {a1}")
    sym.check(a1 == b and a1 == c, f"{which}(seed={seed!r}): another object with the same seed / a pickled copy gives {b} / {c}, not {a1}")

# ---------------------------------------------------------------------------------------------------
def _fp_range(x, lo, hi):
    return And(x >= lo, x <= hi)

def _classify_fp(v):
    return v['what'][:60]

def _random_fp_harness(sym, side):
    u = sym.fp('u'); mn = sym.fp('min'); mx = sym.fp('max')
    B = float(2**20)
    if hasattr(sym, 's'):
        k = u*float(M)
        sym.assume(SymBool(z3.fpEQ(z3.fpRoundToIntegral(z3.RNE(), k.t), k.t)))
    sym.assume((u >= 0.0) & (u < 1.0))
    sym.assume((mn >= -B) & (mn <= B) & (mx >= -B) & (mx <= B))
    sym.assume(mx - mn >= float(2**-20))
    r = with_stream(CobaRandom(1), [u])
    out = r.random(mn, mx)
    if side == 'lower': sym.check(out >= mn, "random(min,max) >= min")
    else:               sym.check(out < mx,  "random(min,max) < max")

@obligation('C05','random_fp', bounds="bit-exact binary64 (QF_FP, RNE): min,max any doubles with |min|,|max|<=2^20, max-min>=2^-20; u any double with u*2^30 integral in [0,1); one lemma per bound, z3 || cvc5 portfolio with a time cap; unknown = inconclusive",
            functions=FUNCS, raw=True, budget={'quick':150,'thorough':900},
            params=lambda tier: [dict(side='lower'),dict(side='upper')],
            stubs=["uniform stream replaced by an arbitrary binary64 u with u*2^30 integral, 0<=u<1 (the LCG reaches exactly these by C05.lcg_bijection/uniform)"])
def random_fp(tier, param):
    from symx import collect, to_smt2, replay
    from symx.portfolio import solve
    side = param['side']
    h = lambda sym: _random_fp_harness(sym, side)
    assumptions, goals, vars_ = collect(h)
    (what, goal), = goals
    smt = to_smt2(assumptions, goal)
    cap = 100 if tier == 'quick' else 800
    r = solve(smt, set(vars_), timeout_s=cap)
    res = dict(paths=1, reached=1, branches=0, checks=1, queries=len(r['verdicts']), solver_s=sum(r['times'].values()),
               samples=[dict(lemma=what, solvers=r['verdicts'], times=r['times'])], raw_ok=True)
    if r['status'] == 'unsat':
        res['verdict'] = 'holds'
    elif r['status'] == 'sat':
        ok, desc = replay(h, r['model'], {})
        u = r['model'].get('u')
        sig = ("returns-max:u=1-2^-30" if (side=='upper' and u == 1-2.0**-30) else f"{what}:u={u}") if side=='upper' else what
        sig = "random(min,max)==max by rounding of min+(max-min)*u" if side=='upper' else what
        res['verdict'] = 'counterexample'
        res['violations'] = [dict(what=what, signature=sig, model=r['model'], choices={}, info=dict(by=r['by'], times=r['times']),
                                  replayed=ok, replay_desc=desc)]
    else:
        res['verdict'] = 'inconclusive'; res['inconclusive'] = f"portfolio: {r['verdicts']} {r['times']} disagreement={r['disagreement']}"
    return res

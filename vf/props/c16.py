"""C16 Built-in learners always return a valid, self-consistent distribution."""
import math, itertools
from vf.run import obligation
from symx import is_sym, SymReal, And, Or

import coba.learners.bandit as bandit
from coba.learners.bandit import BanditEpsilonLearner, BanditUCBLearner, FixedLearner, RandomLearner
from coba.learners.misguided import MisguidedLearner
from coba.learners.corral import CorralLearner
from coba.context import CobaContext, NullLogger
CobaContext.logger = NullLogger()

EXPLANATION = ("Random/Fixed/BanditEpsilon/BanditUCB (and Misguided wrappers) run through solver-chosen histories of <=3 rounds with changing action "
               "sets (never-seen and disappearing actions, dense/sparse/hashable actions) and symbolic rewards in [0,1]; ties between value "
               "estimates are decided by z3 so every tie pattern is explored; after every step score() over the offered actions must be a "
               "distribution and predict() must return an offered action with exactly its score. Corral is exercised on an enumerated concrete grid only.")
ASSUMPTIONS = ["rewards are exact dyadic reals k/4 in [0,1]; the pmf entries are concrete floats once the tie pattern is fixed, sums compared with 1e-9 tolerance",
               "UCB: math.sqrt by contract (ValueError for x<0, result >=0 and ==0 iff x==0, same argument -> same result not assumed: any ordering of bounds explored); math.log on concrete ints is the real one",
               "Corral's log-barrier root search is floating-point iteration with data-dependent trip count: NOT symbolically encoded; only an enumerated grid of concrete histories is run (eta in {0.075,0.5,1}, T in {inf,4}, rewards in {0,.5,1}, 3 rounds) and the claim 'weights stay a strictly positive distribution to 1e-4' is checked on that grid only",
               "logged (off-policy) learn calls use a solver-enumerated member of the current action set with probability k/4"]
FUNCS = ['coba.learners.bandit:BanditEpsilonLearner._pmf','coba.learners.bandit:BanditEpsilonLearner.learn','coba.learners.bandit:BanditUCBLearner._pmf',
         'coba.learners.bandit:BanditUCBLearner.learn','coba.learners.bandit:BanditUCBLearner._Avg_R_UCB','coba.learners.bandit:BanditUCBLearner._Var_R_UCB',
         'coba.learners.bandit:FixedLearner','coba.learners.bandit:RandomLearner','coba.learners.utilities:PMFPredictor','coba.learners.misguided:MisguidedLearner',
         'coba.statistics:OnlineVariance','coba.learners.corral:CorralLearner']

UNIVERSES = {
    'hashable': ['A','B','C'],
    'ints':     [0,1,2],
    'dense':    [(1,0),(0,1),(1,1)],
    'sparse':   [{'a':1},{'b':1},{'a':1,'b':2}],
    'rowviews': None,      # coba's own row views (LazyDense, HeadDense, LazySparse): Dense/Sparse but neither list/tuple/dict nor hashable; built per run
}
def _universe(name):
    if name != 'rowviews': return UNIVERSES[name]
    from coba.pipes.rows import LazyDense, HeadDense, LazySparse
    return [LazyDense(lambda: [1,0]), HeadDense([0,1],{'x':0,'y':1}), LazySparse({'a':1,'b':2})]
SUBSETS = [[0,1,2],[0,1],[1,2],[2],[1,0]]

class _MathStub:
    def __init__(self, sym): self.sym = sym; self.k = 0
    log = staticmethod(math.log)
    def sqrt(self, x):
        if not is_sym(x): return math.sqrt(x)
        if x < 0: raise ValueError("math domain error")
        self.k += 1
        y = self.sym.real(f'sqrt{self.k}', 0, None)
        self.sym.assume(Or(And(x == 0, y == 0), And(x > 0, y > 0)))
        return y

def make(kind, sym):
    if kind == 'eps0':   return BanditEpsilonLearner(0, seed=1)
    if kind == 'eps.1':  return BanditEpsilonLearner(.1, seed=1)
    if kind == 'eps1':   return BanditEpsilonLearner(1, seed=1)
    if kind == 'ucb':    return BanditUCBLearner(seed=1)
    if kind == 'random': return RandomLearner(seed=1)
    if kind == 'misguided_eps': return MisguidedLearner(BanditEpsilonLearner(.1, seed=1), 1, -1)
    if kind == 'misguided_ucb': return MisguidedLearner(BanditUCBLearner(seed=1), .5, .5)
    raise ValueError(kind)

def params(tier):
    T = 3 if tier == 'quick' else 4
    ps = [dict(kind=k, uni='hashable', T=T) for k in ('eps0','eps.1','eps1','ucb','random','misguided_eps','misguided_ucb')]
    ps += [dict(kind=k, uni=u, T=T) for k in ('eps.1','ucb') for u in ('ints','dense','sparse')] + [dict(kind=k, uni='rowviews', T=2) for k in ('eps.1','ucb','misguided_eps')]
    if tier == 'thorough': ps += [dict(kind=k, uni=u, T=3) for k in ('eps0','eps1','random','misguided_eps','misguided_ucb') for u in ('ints','dense','sparse')]
    return ps

def check_distribution(sym, lrn, ctx, actions, when):
    try:
        scores = [lrn.score(ctx, actions, a) for a in actions]
    except Exception as e:
        sym.fail(f"{when}: score raised {type(e).__name__}: {e}")
    for s in scores:
        sym.check(s >= 0, f"{when}: negative score")
    tot = sum(scores)
    sym.check((tot > 1-1e-9) & (tot < 1+1e-9) if is_sym(tot) else abs(tot-1) < 1e-9, f"{when}: scores over the offered actions sum to {tot}, not 1")
    try:
        a, p = lrn.predict(ctx, actions)[:2]
    except Exception as e:
        sym.fail(f"{when}: predict raised {type(e).__name__}: {e}")
    where = [i for i,x in enumerate(actions) if x is a or x == a]
    sym.check(len(where) >= 1, f"{when}: predict returned {a!r} which is not an offered action")
    sym.check(any((p == scores[i]) if is_sym(p) or is_sym(scores[i]) else abs(p-scores[i]) < 1e-12 for i in where), f"{when}: predict's probability is not the policy's probability of that action")
    sym.check(p > 0, f"{when}: predict returned an action with probability {p}")
    return a, p

def _classify(v):
    return v['what'][:110]

@obligation('C16','bandits', bounds={'quick':"T=3 rounds; per round an action set chosen from 4 subsets/orders ([0,1,2],[1,2],[2],[1,0]; first round [0,1,2] or [0,1]) of a 3-action universe (hashable strings, ints, dense tuples, sparse dicts); learn on-policy or on a logged member (the last offered action); rewards symbolic k/4 in [0,1]; learners: BanditEpsilon(0,.1,1), BanditUCB, Random, Misguided(eps), Misguided(ucb) on hashable actions; BanditEpsilon(.1) and BanditUCB also on int, dense and sparse actions",
                                     'thorough':"T=4"},
            functions=FUNCS, params=params, classify=_classify, budget={'quick':80,'thorough':900},
            stubs=["math.sqrt in coba.learners.bandit by contract (UCB only)"])
def bandits(sym, kind, uni, T):
    U = _universe(uni)
    sets = [sym.choice(f'set{t}', [SUBSETS[0],SUBSETS[2],SUBSETS[3],SUBSETS[4]] if t else SUBSETS[:2]) for t in range(T)]
    modes = [sym.choice(f'mode{t}', ['on','logged']) for t in range(T-1)]
    lrn = make(kind, sym)
    old = bandit.math
    if hasattr(sym,'branch'): bandit.math = _MathStub(sym)
    try:
        for t in range(T):
            actions = [U[i] for i in sets[t]]
            a, p = check_distribution(sym, lrn, None, actions, f"round {t} ({kind}, actions {sets[t]})")
            if t == T-1: break
            r = sym.real(f'r{t}', 0, 1, denom=4)
            if modes[t] == 'logged':
                a = actions[-1]; p = sym.real(f'lp{t}', 0.25, 1, denom=4)
            try:
                lrn.learn(None, a, r, p)
            except Exception as e:
                sym.fail(f"round {t}: learn raised {type(e).__name__}: {e}")
    finally:
        bandit.math = old

@obligation('C16','fixed', bounds="FixedLearner over 1..3 actions with a symbolic PMF k/4 (sum 1): score == pmf entry, predict returns an offered action with its entry",
            functions=FUNCS, params=lambda tier: [dict(n=n) for n in (1,2,3)])
def fixed(sym, n):
    ks = [sym.int(f'k{j}', 0, 4) for j in range(n)]
    tot = 0
    for k in ks: tot = tot + k
    sym.assume(tot == 4)
    pmf = [k/4 for k in ks]
    lrn = FixedLearner.__new__(FixedLearner)           # the constructor asserts round(sum(pmf),3)==1 on floats; the pmf here is exact
    lrn._fpmf = pmf
    from coba.learners.utilities import PMFPredictor
    lrn._pred = PMFPredictor(lrn._pmf, 1)
    actions = ['x','y','z'][:n]
    for rnd in range(2):
        for j,a in enumerate(actions):
            sym.check(lrn.score(None, actions, a) == pmf[j], "FixedLearner.score is not the pmf entry")
        a, p = lrn.predict(None, actions)
        j = actions.index(a)
        sym.check(p == pmf[j], "FixedLearner.predict probability is not the pmf entry of the returned action")
        sym.check(pmf[j] > 0, "FixedLearner returned a zero-probability action")
        lrn.learn(None, a, 1, p)

# ---------------------------------------------------------------------------------------------------
class _Base:
    """deterministic base learner always choosing position `i`"""
    def __init__(self, i): self.i = i
    @property
    def params(self): return {'family':'base','i':self.i}
    def predict(self, context, actions): return actions[min(self.i,len(actions)-1)], 1
    def score(self, context, actions, action): return int(actions[min(self.i,len(actions)-1)] == action)
    def learn(self, context, action, reward, probability, **kw): pass

def corral_params(tier):
    return [dict(eta=e, T=T, mode=m) for e in (0.075,0.5,1) for T in (math.inf,4) for m in ('importance','off-policy')]

@obligation('C16','corral_grid', bounds="NOT symbolic: enumerated concrete grid. Corral over 2 deterministic base learners (same or different picks) or Random+BanditEpsilon; eta in {0.075,0.5,1}; T in {inf,4}; both modes; 3 rounds; rewards in {0,0.5,1}; on-policy or logged (prob .25/1) learning",
            functions=FUNCS, params=corral_params, classify=_classify)
def corral_grid(sym, eta, T, mode):
    bases = sym.choice('bases', ['agree','disagree','builtin'])
    base = {'agree': lambda: [_Base(0),_Base(0)], 'disagree': lambda: [_Base(0),_Base(1)],
            'builtin': lambda: [RandomLearner(1), BanditEpsilonLearner(.1,2)]}[bases]()
    lrn = CorralLearner(base, eta=eta, T=T, mode=mode, seed=1)
    actions = ['A','B','C']
    for t in range(3):
        try:
            pred = lrn.predict(None, actions)
        except Exception as e:
            sym.fail(f"round {t}: Corral.predict raised {type(e).__name__}: {e} (eta={eta},T={T},mode={mode},bases={bases})")
        a, p, kw = pred[0], pred[1], (pred[2] if len(pred) > 2 else {})
        sym.check(a in actions, "Corral returned an action that was not offered")
        sym.check(0 < p <= 1+1e-3, f"Corral probability {p} not in (0,1] (1e-3 slack: its root search is accurate to 1e-4)")
        ps = lrn._p_bars
        sym.check(all(w > 0 for w in ps) and abs(sum(ps)-1) < 1e-3, f"Corral weights {ps} are not a strictly positive distribution")
        r = sym.choice(f'r{t}', [0,0.5,1])
        how = sym.choice(f'how{t}', ['on','logged_.25'])
        try:
            if how == 'on': lrn.learn(None, a, r, p, **kw)
            else: lrn.learn(None, a, r, 0.25, **kw)
        except Exception as e:
            sym.fail(f"round {t}: Corral.learn raised {type(e).__name__}: {e} (eta={eta},T={T},mode={mode},bases={bases},r={r},{how})")
        ps = lrn._ps
        sym.check(all(w > 0 for w in ps) and abs(sum(ps)-1) < 1e-3, f"after learn Corral weights {ps} are not a strictly positive distribution (1e-3)")

@obligation('C16','corral_long', bounds="NOT symbolic: concrete runs of 120 rounds. Corral over 2 deterministic base learners picking different actions, Random+BanditEpsilon, or four FixedLearners (optionally taught with a small logged probability .05); eta in {0.5,1}; finite horizons T in {4,20,1000} and inf; both modes; reward schedule in {always 0, always 1, 1 only for the first base learner's pick, alternating}: after every round the base-learner weights (raw and smoothed) are a strictly positive distribution and the reported probability is in (0,1]",
            functions=FUNCS, params=lambda tier: [dict(eta=e, T=T, mode=m) for e in (0.5,1) for T in (4,20,1000,math.inf) for m in ('importance','off-policy')] + [dict(eta=e, T=math.inf, mode=m) for e in (3,5) for m in ('importance','off-policy')], classify=_classify)      # large learning rates: the root search of the log-barrier update needs its full precision
def corral_long(sym, eta, T, mode):
    bases = sym.choice('bases', ['disagree','builtin','four_fixed'])
    sched = sym.choice('rewards', ['zero','one','first','alternate'])
    base = {'disagree': lambda: [_Base(0),_Base(1)], 'builtin': lambda: [RandomLearner(1), BanditEpsilonLearner(.1,2)],
            'four_fixed': lambda: [FixedLearner([1,0,0]), FixedLearner([0,1,0]), FixedLearner([0,0,1]), FixedLearner([.5,.5,0])]}[bases]()
    small_p = bases == 'four_fixed' and sym.flag('small_logged_probability')
    lrn = CorralLearner(base, eta=eta, T=T, mode=mode, seed=1)
    actions = ['A','B','C']
    for t in range(120):
        try: pred = lrn.predict(None, actions)
        except Exception as e: sym.fail(f"round {t}: Corral.predict raised {type(e).__name__}: {e} (eta={eta},T={T},mode={mode},bases={bases},{sched})")
        a, p, kw = pred[0], pred[1], (pred[2] if len(pred) > 2 else {})
        sym.check(a in actions and 0 < p <= 1+1e-3, f"round {t}: Corral returned ({a},{p})")
        ps = lrn._p_bars
        sym.check(all(w > 0 for w in ps) and abs(sum(ps)-1) < 1e-3, f"round {t}: smoothed Corral weights {ps} are not a strictly positive distribution (eta={eta},T={T},mode={mode},bases={bases},{sched})")
        r = {'zero':0, 'one':1, 'first': 1 if a == 'A' else 0, 'alternate': t % 2}[sched]
        try: lrn.learn(None, a, r, (0.05 if small_p else p), **kw)
        except Exception as e: sym.fail(f"round {t}: Corral.learn raised {type(e).__name__}: {e} (eta={eta},T={T},mode={mode},bases={bases},{sched})")
        ps = lrn._ps
        sym.check(all(w > 0 for w in ps) and abs(sum(ps)-1) < 1e-3, f"round {t}: after learn Corral weights {ps} are not a strictly positive distribution (eta={eta},T={T},mode={mode},bases={bases},{sched})")
        ps = lrn._p_bars
        sym.check(all(w > 0 for w in ps) and abs(sum(ps)-1) < 1e-3, f"round {t}: after learn smoothed Corral weights {ps} are not a strictly positive distribution (eta={eta},T={T},mode={mode},bases={bases},{sched})")

@obligation('C16','zero_draw', bounds="the built-in learners seeded with the generator state whose first uniform draw is exactly 0.0 (seed 482549499): BanditUCB after one learn, BanditEpsilon(0) after one learn, FixedLearner([0,.5,.5]), Misguided(eps): the first prediction is an offered action reported with a probability > 0 that equals its score",
            functions=FUNCS, params=lambda tier: [dict(kind=k) for k in ('ucb','eps0','fixed','misguided')], classify=_classify)
def zero_draw(sym, kind):
    Z = 482549499
    from coba.random import CobaRandom
    sym.check(CobaRandom(Z).random() == 0, "the seed with a first uniform of exactly 0.0 moved")
    actions = ['x','y','z']
    lrn = {'ucb': lambda: BanditUCBLearner(seed=Z), 'eps0': lambda: BanditEpsilonLearner(0, seed=Z), 'fixed': lambda: FixedLearner([0,.5,.5], seed=Z),
           'misguided': lambda: MisguidedLearner(BanditEpsilonLearner(0, seed=Z), 1, -1)}[kind]()
    if kind in ('ucb','eps0','misguided'):
        first = sym.choice('taught', actions)
        lrn.learn(None, first, sym.choice('reward', [0,1]), 1)
    pred = lrn.predict(None, actions)
    a, p = pred[0], pred[1]
    sym.check(a in actions, f"{kind}: predicted {a!r} is not offered")
    sym.check(p > 0, f"{kind}: at a uniform draw of exactly 0.0 the learner returned {a!r} with probability {p}")
    sym.check(abs(lrn.score(None, actions, a) - p) < 1e-9, f"{kind}: the reported probability {p} is not score(action) = {lrn.score(None, actions, a)}")


@obligation('C16','action_set_history', bounds="Corral (2 deterministic bases picking different positions, or Random+BanditEpsilon) and the SafeLearner-wrapped built-in bandits over a history of 3-4 rounds whose offered action sets change between sets that contain the int labels 0/1 and sets that do not (A,B,A / B,A,B / A,A,B,A; A in {[0,1,2],[1,2,3]}, B in {[10,11,12],[5,6]}): every prediction is an offered action with a probability in (0,1], nothing raises (Corral's score() re-samples its stochastic bases on every call, so a sum over separate score() calls is not required to be 1)",
            functions=FUNCS+['coba.safety:SafeLearner.predict'], params=lambda tier: [dict(kind=k, pat=p) for k in ('corral_disagree','corral_builtin','eps','ucb','random') for p in ('ABA','BAB','AABA')], classify=_classify)
def action_set_history(sym, kind, pat):
    from coba.safety import SafeLearner
    A = sym.choice('A', [[0,1,2],[1,2,3]]); B = sym.choice('B', [[10,11,12],[5,6]])
    mode = sym.choice('mode', ['importance','off-policy'])
    if kind == 'corral_disagree': lrn = CorralLearner([_Base(0),_Base(1)], eta=.5, mode=mode, seed=1)
    elif kind == 'corral_builtin': lrn = CorralLearner([RandomLearner(1), BanditEpsilonLearner(.1,2)], eta=.5, mode=mode, seed=1)
    else: lrn = SafeLearner({'eps': lambda: BanditEpsilonLearner(.1,2), 'ucb': lambda: BanditUCBLearner(2), 'random': lambda: RandomLearner(1)}[kind](), 3)
    for t,c in enumerate(pat):
        actions = list(A if c == 'A' else B)
        try: pred = lrn.predict(None, actions)
        except Exception as e: sym.fail(f"round {t}: predict raised {type(e).__name__}: {e} (history {pat[:t+1]}, A={A}, B={B})")
        a, p, kw = pred[0], pred[1], (pred[2] if len(pred) > 2 else {})
        sym.check(any(a == x and type(a) is type(x) or a == x for x in actions), f"round {t}: predict returned {a!r} which is not among the offered {actions} (history {pat[:t+1]})")
        sym.check(0 < p <= 1+1e-9, f"round {t}: probability {p}")
        try: lrn.learn(None, a, (t % 2), p, **kw)
        except Exception as e: sym.fail(f"round {t}: learn raised {type(e).__name__}: {e} (history {pat[:t+1]})")

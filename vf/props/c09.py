"""C09 Ordering and selection filters keep exactly the interactions they promise."""
import math, itertools, builtins, os
from vf.run import obligation
from symx import is_sym, SymInt, SymReal, And, Or, ite

import coba.random as cr
import coba.pipes.filters as pf
import coba.environments.filters as ef
from coba.random import CobaRandom

EXPLANATION = ("The real Take/Slice/Shuffle/Reservoir/Sort/Riffle/Where/Cache/Chunk/Params/Identity/Batch+Unbatch filters run on interaction "
               "sequences with symbolic integer features and symbolic parameters (counts, bounds, slice indices); randomised filters are "
               "executed on an ARBITRARY uniform stream (each draw a fresh grid value in [0,1)), so the permutation / sub-multiset claims hold "
               "for every stream and hence every seed; outputs are compared with explicit-loop reference models by z3-decided comparisons.")
ASSUMPTIONS = ["interactions carry a concrete 'id' so that identity of outputs with inputs is decided exactly; all other content is compared by value",
               "CobaRandom inside the filters is given a stubbed uniform stream of arbitrary grid values (justified by C05.uniform/lcg_bijection)",
               "Reservoir: math.log by contract (ValueError for x<=0 or base<=0, ZeroDivisionError for base==1, else any real of the right sign; skip counts canonicalised to <=N+1 since longer skips end the stream identically); r**x by contract (value in [r,1] for r in (0,1], 0 for r=0)",
               "determinism in the seed is checked on concrete seeds {0,1,5} (seed -> stream is C05's subject)",
               "torch batches and Sort() on scalar/None contexts (it iterates the context) outside the claim"]
FUNCS = ['coba.pipes.filters:Take','coba.pipes.filters:Slice','coba.pipes.filters:Shuffle','coba.pipes.filters:Reservoir','coba.pipes.filters:Cache',
         'coba.environments.filters:Shuffle','coba.environments.filters:Sort','coba.environments.filters:Riffle','coba.environments.filters:Where',
         'coba.environments.filters:Cache','coba.environments.filters:Chunk','coba.environments.filters:Params','coba.environments.filters:Identity',
         'coba.environments.filters:Batch','coba.environments.filters:Unbatch','coba.environments.filters:BatchSafe','coba.random:CobaRandom.shuffle',
         'coba.random:CobaRandom.randint','coba.random:CobaRandom.randoms']

M = 2**30

def make_interactions(sym, n, kind, ctx, nacts=None):
    out = []
    for i in range(n):
        d = {}
        if ctx == 'scalar': d['context'] = sym.int(f'x{i}', -2, 2)
        elif ctx == 'dense': d['context'] = (sym.int(f'x{i}', -2, 2), sym.int(f'y{i}', -2, 2))
        elif ctx == 'sparse':
            d['context'] = {'a': sym.int(f'x{i}', -2, 2)}
            if i % 2 == 0: d['context']['b'] = sym.int(f'y{i}', -2, 2)
        elif ctx == 'none': d['context'] = None
        k = nacts[i] if nacts else 2
        d['actions'] = [10+j for j in range(k)]
        d['rewards'] = [sym.int(f'r{i}_{j}', 0, 1) for j in range(k)]
        if kind == 'logged':
            d['action'] = 10; d['reward'] = sym.int(f'lr{i}', 0, 1); d['probability'] = 0.5
        if kind == 'grounded':
            d['feedbacks'] = [j for j in range(k)]; d['userid'] = i % 2; d['isnormal'] = bool(i % 2)
        d['id'] = i
        out.append(d)
    return out

def same_content(sym, out, inp, what):
    """every output interaction is (by id) an input interaction with untouched content"""
    byid = {d['id']: d for d in inp}
    for o in out:
        sym.check(o.get('id') in byid, f"{what}: output is not an input interaction")
        src = byid[o['id']]
        sym.check(set(o.keys()) == set(src.keys()), f"{what}: interaction fields changed")
        for k in src:
            a, b = o[k], src[k]
            if isinstance(b, dict): sym.check(dict(a) == b, f"{what}: content of '{k}' altered")
            elif isinstance(b, (list,tuple)): sym.check(list(a) == list(b), f"{what}: content of '{k}' altered")
            else: sym.check((a is b) or (a == b), f"{what}: content of '{k}' altered")

def ids(seq): return [d['id'] for d in seq]

class StubRandom(CobaRandom):
    """CobaRandom whose uniform stream is an arbitrary sequence of grid values supplied by the harness."""
    sym = None; counter = None
    def __init__(self, seed=None):
        self._seed = seed
        self._randu = self._stream()
        self._randg = self._next_gaussian()
    max_zero = None      # optional bound on how many draws may be exactly 0.0 (code that re-draws on 0.0 would otherwise loop for ever on an arbitrary stream)
    max_symbolic = None  # optional: draws beyond this many are the constant 1/2 (for code that pre-draws batches it never consumes)
    def _stream(self):
        zeros = 0
        while True:
            i = next(StubRandom.counter)
            if StubRandom.max_symbolic is not None and i >= StubRandom.max_symbolic:
                yield 0.5; continue
            k = StubRandom.sym.int(f'u{i}', 0, M-1)
            if StubRandom.max_zero is not None and hasattr(StubRandom.sym, 'branch'):
                zeros = zeros + ite(k == 0, 1, 0)
                StubRandom.sym.assume(zeros <= StubRandom.max_zero)
            yield k/M

class stubbed:
    def __init__(self, sym, mods):
        self.sym, self.mods = sym, mods
    def __enter__(self):
        StubRandom.sym = self.sym; StubRandom.counter = itertools.count()
        self.old = [(m, m.CobaRandom) for m in self.mods]
        for m in self.mods: m.CobaRandom = StubRandom
    def __exit__(self, *a):
        for m,o in self.old: m.CobaRandom = o

KINDS = ['simulated','logged','grounded']
CTXS  = ['none','scalar','dense','sparse']

def nrange(tier): return range(0, 4 if tier=='quick' else 5)

# ---------------------------------------------------------------------------------------------------
@obligation('C09','take_slice', bounds={'quick':"N<=3 interactions (simulated/logged/grounded x 4 context shapes); Take(count in [0,N+2] or None, strict); Slice(start,stop in [0,N+1] or None, step in [1,3])",'thorough':"N<=4"},
            functions=FUNCS, params=lambda tier: [dict(n=n, f=f) for n in nrange(tier) for f in ('take','slice')])
def take_slice(sym, n, f):
    kind = sym.choice('kind', KINDS); ctx = sym.choice('ctx', CTXS)
    inp = make_interactions(sym, n, kind, ctx)
    if f == 'take':
        none = sym.flag('none'); strict = sym.flag('strict')
        count = None if none else sym.int('count', 0, n+2)
        flt = sym.choice('cls', [pf.Take, ef.Take])(count, strict)
        out = list(flt.filter(iter(inp)))
        if none: exp = list(range(n))
        else:
            c = count.concretize() if is_sym(count) else count
            exp = list(range(min(c,n))) if not strict or c <= n else []
        sym.check(ids(out) == exp, "Take: not the promised prefix (strict: all n or nothing)")
    else:
        s_none = sym.flag('s_none'); e_none = sym.flag('e_none')
        start = None if s_none else sym.int('start', 0, n+1)
        stop  = None if e_none else sym.int('stop', 0, n+1)
        step  = sym.int('step', 1, 3)
        flt = sym.choice('cls', [pf.Slice, ef.Slice])(start, stop, step)
        out = list(flt.filter(iter(inp)))
        cv = lambda v: v.concretize() if is_sym(v) else v
        exp = list(range(n))[slice(cv(start), cv(stop), cv(step))]
        sym.check(ids(out) == exp, "Slice: not the promised slice")
    same_content(sym, out, inp, f)

# ---------------------------------------------------------------------------------------------------
@obligation('C09','shuffle', bounds={'quick':"N<=3; pipes.Shuffle and environments.Shuffle (simulated and logged branch) on an arbitrary uniform stream; determinism on concrete seeds {0,1,5,None->skipped}",'thorough':"N<=4"},
            functions=FUNCS, params=lambda tier: [dict(n=n) for n in nrange(tier)],
            stubs=["CobaRandom in coba.pipes.filters replaced by a generator with an arbitrary grid-valued uniform stream"])
def shuffle(sym, n):
    kind = sym.choice('kind', KINDS); ctx = sym.choice('ctx', ['none','dense'])
    cls = sym.choice('cls', ['pipes','env'])
    inp = make_interactions(sym, n, kind, ctx)
    flt = (pf.Shuffle if cls == 'pipes' else ef.Shuffle)(3)
    with stubbed(sym, [pf]):
        out = list(flt.filter(list(inp)))
    sym.check(sorted(ids(out)) == list(range(n)), "Shuffle: output is not a permutation of the input")
    same_content(sym, out, inp, 'shuffle')
    sym.check(flt._seed == 3 and flt.params == {'shuffle_seed': 3}, "Shuffle: seed/params changed by reading")
    # determinism in the seed (concrete seeds, real LCG)
    seed = sym.choice('seed', [0,1,5])
    f1 = (pf.Shuffle if cls == 'pipes' else ef.Shuffle)(seed)
    a = ids(f1.filter(list(inp))); b = ids(f1.filter(list(inp)))
    c = ids((pf.Shuffle if cls == 'pipes' else ef.Shuffle)(seed).filter(list(inp)))
    sym.check(a == b and a == c, "Shuffle: order not determined by the seed")

# ---------------------------------------------------------------------------------------------------
def _key_lt(a, b):
    for x,y in zip(a,b):
        if x < y: return True
        if x > y: return False
    return len(a) < len(b)

def stable_sort_ids(rows, keyf):
    out = []
    for r in rows:
        pos = len(out)
        while pos > 0 and _key_lt(keyf(r), keyf(out[pos-1])): pos -= 1
        out.insert(pos, r)
    return ids(out)

@obligation('C09','sort', bounds={'quick':"N<=3; dense 2-feature contexts sorted on (), (0), (1), (1,0), ([0,1]); sparse contexts on (), ('a'), ('b','a') with absent keys counting 0; symbolic features in [-2,2]",'thorough':"N<=4"},
            functions=FUNCS, params=lambda tier: [dict(n=n, ctx=c) for n in nrange(tier) for c in ('dense','sparse','absent')])
def sort(sym, n, ctx):
    kind = sym.choice('kind', ['simulated','logged'])
    if ctx == 'absent':
        inp = make_interactions(sym, n, kind, 'none')
        for d in inp: del d['context']
        out = list(ef.Sort(0).filter(iter(inp)))
        sym.check(ids(out) == list(range(n)), "Sort without contexts must keep the order")
        return
    inp = make_interactions(sym, n, kind, ctx)
    if ctx == 'dense':
        keys = sym.choice('keys', [(), (0,), (1,), (1,0), ([0,1],)])
        flat = [k for key in keys for k in (key if isinstance(key,list) else [key])]
        keyf = (lambda d: tuple(d['context'])) if not flat else (lambda d: tuple(d['context'][k] for k in flat))
    else:
        keys = sym.choice('keys', [('a',), ('b','a'), ('b',)])
        keyf = lambda d: tuple(d['context'].get(k,0) for k in keys)
    out = list(ef.Sort(*keys).filter(iter(inp)))
    sym.check(ids(out) == stable_sort_ids(inp, keyf), "Sort: not the stable ordering by the chosen context keys")
    same_content(sym, out, inp, 'sort')

# ---------------------------------------------------------------------------------------------------
@obligation('C09','riffle', bounds={'quick':"N<=4; spacing in [1,3]; arbitrary uniform stream; determinism on seeds {0,1,5}",'thorough':"N<=6"},
            functions=FUNCS, params=lambda tier: [dict(n=n, sp=s) for n in range(0, 5 if tier=='quick' else 7) for s in (1,2,3)],
            stubs=["CobaRandom in coba.environments.filters replaced by a generator with an arbitrary grid-valued uniform stream"])
def riffle(sym, n, sp):
    inp = make_interactions(sym, n, 'simulated', 'none')
    with stubbed(sym, [ef]):
        out = list(ef.Riffle(sp, 1).filter(iter(inp)))
    sym.check(sorted(ids(out)) == list(range(n)), "Riffle: output is not a permutation of the input")
    same_content(sym, out, inp, 'riffle')
    seed = sym.choice('seed', [0,1,5])
    f1 = ef.Riffle(sp, seed)
    a = ids(f1.filter(iter(inp))); a2 = ids(f1.filter(iter(inp))); b = ids(ef.Riffle(sp, seed).filter(iter(inp)))
    sym.check(a == b and a == a2, "Riffle: order not determined by the seed (same instance read twice / a second instance)")

# ---------------------------------------------------------------------------------------------------
def bound_menu(sym, name, hi):
    form = sym.choice(f'{name}_form', ['none','exact','min','max','both'])
    if form == 'none': return None, (None,None)
    if form == 'exact':
        v = sym.int(f'{name}_v', 0, hi); return v, (v,v)
    if form == 'min':
        v = sym.int(f'{name}_lo', 0, hi); return (v,None), (v,None)
    if form == 'max':
        v = sym.int(f'{name}_hi', 0, hi); return (None,v), (None,v)
    lo = sym.int(f'{name}_lo', 0, hi); hi_ = sym.int(f'{name}_hi', 0, hi)
    sym.assume(lo <= hi_)
    return (lo,hi_), (lo,hi_)

def within(v, lo, hi):
    return (lo is None or lo <= v) and (hi is None or v <= hi)

def _classify_where(v):
    ch = v['choices']
    forms = ['none','exact','min','max','both']
    if 'must drop' in v['what'] and forms[ch.get('ni_form',0)] == 'both':
        return "Where(n_interactions=(min,max)) passes an environment longer than max"
    return v['what'][:90]

@obligation('C09','where', bounds={'quick':"N<=3 interactions with 1..3 actions each (pattern enumerated); contexts none/scalar(incl. symbolic 0)/dense/sparse; each of n_interactions, n_features, n_actions in {None, k, (k,None), (None,k), (lo,hi)} with symbolic bounds in [0,4]; one bound kind active at a time plus all-three combination",'thorough':"N<=4"},
            functions=FUNCS, classify=_classify_where,
            params=lambda tier: [dict(n=n, which=w) for n in nrange(tier) for w in ('ni','nf','na','all')])
def where(sym, n, which):
    ctx = sym.choice('ctx', CTXS)
    pat = sym.choice('acts', [[2,2,2,2],[1,2,3,1],[3,1,2,2]])
    inp = make_interactions(sym, n, 'simulated', ctx, nacts=pat[:n])
    ni = nf = na = None; bi = bf = ba = (None,None)
    if which in ('ni','all'): ni, bi = bound_menu(sym, 'ni', 4)
    if which in ('nf','all'): nf, bf = bound_menu(sym, 'nf', 3)
    if which in ('na','all'): na, ba = bound_menu(sym, 'na', 4)
    out = list(ef.Where(n_interactions=ni, n_features=nf, n_actions=na).filter(iter(inp)))
    if n == 0:
        sym.check(out == [], "Where on an empty environment"); return
    nfeat = {'none':0, 'scalar':1, 'dense':2, 'sparse':len(inp[0]['context']) if ctx=='sparse' else 0}[ctx]
    env_ok = within(n, *bi) and within(nfeat, *bf)
    exp = [d['id'] for d in inp if within(len(d['actions']), *ba)] if env_ok else []
    sym.check(ids(out) == exp, f"Where must {'pass' if env_ok else 'drop'} this environment{' keeping only in-bound action counts' if env_ok else ''}: got ids {ids(out)} expected {exp}")
    same_content(sym, out, inp, 'where')

# ---------------------------------------------------------------------------------------------------
@obligation('C09','identities', bounds={'quick':"N<=3; Cache (pipes and environments; read twice, and after an abandoned partial read), Chunk, Params, Identity, Batch(size in [0,5] or None) followed by Unbatch, BatchSafe(Identity)",'thorough':"N<=4"},
            functions=FUNCS, params=lambda tier: [dict(n=n, f=f) for n in nrange(tier) for f in ('cache','envcache','chunk','params','identity','batch','batchsafe')])
def identities(sym, n, f):
    kind = sym.choice('kind', KINDS); ctx = sym.choice('ctx', CTXS)
    inp = make_interactions(sym, n, kind, ctx)
    if kind == 'simulated' and sym.flag('fn_rewards'):
        for d in inp: d['rewards'] = (lambda a, r=list(d['rewards']): r[a-10])
    if f in ('cache','envcache'):
        flt = pf.Cache(2) if f == 'cache' else ef.Cache(2)
        partial = sym.flag('partial')
        if partial:
            it = iter(flt.filter(iter(inp)))
            from symx import unwrap
            for _ in range(unwrap(sym.int('j', 0, n)) if n else 0): next(it)
            del it
        out1 = list(flt.filter(iter(inp))); out2 = list(flt.filter(iter([])))
        if not partial:
            sym.check(ids(out1) == list(range(n)) and ids(out2) == list(range(n)), "Cache must replay the full sequence on every read")
        else:
            sym.check(ids(out2) == ids(out1), "Cache replays differ between reads")
            sym.check(ids(out1) == list(range(n)), "Cache after an abandoned partial read must still deliver the full sequence")
        same_content(sym, out1, inp, f); same_content(sym, out2, inp, f)
        return
    if f == 'chunk':    out = list(ef.Chunk().filter(iter(inp)))
    if f == 'params':   out = list(ef.Params({'p':1}).filter(iter(inp)))
    if f == 'identity': out = list(ef.Identity().filter(iter(inp)))
    if f == 'batchsafe': out = list(ef.BatchSafe(ef.Identity()).filter(iter(inp)))
    if f == 'batch':
        none = sym.flag('none')
        size = None if none else sym.int('size', 0, 5)
        size_c = size.concretize() if is_sym(size) else size
        batched = list(ef.Batch(size_c).filter(iter(inp)))
        if size_c and n:
            sym.check(len(batched) == -(-n//size_c), "Batch: number of batches")
        out = list(ef.Unbatch().filter(iter(batched)))
    sym.check(ids(out) == list(range(n)), f"{f}: must be the identity on the interaction sequence")
    if f == 'batch' and inp and callable(inp[0]['rewards']):
        for o,d in zip(out,inp):
            sym.check([o['rewards'](a) for a in d['actions']] == [d['rewards'](a) for a in d['actions']], "batch/unbatch changed a reward function")
            o['rewards'] = d['rewards']
    same_content(sym, out, inp, f)

# ---------------------------------------------------------------------------------------------------
class _MathStub:
    floor = staticmethod(math.floor)
    def __init__(self, sym, n): self.sym, self.n, self.k = sym, n, 0
    def log(self, a, b=None):
        if not is_sym(a) and not is_sym(b): return math.log(a,b) if b is not None else math.log(a)
        if a <= 0: raise ValueError("math domain error")
        if b is not None:
            if b <= 0: raise ValueError("math domain error")
            if b == 1: raise ZeroDivisionError("float division by zero")
        self.k += 1
        # arbitrary real with the sign of ln(a)/ln(b); 0<a<1 and 0<b<1 here -> positive; canonicalised to [0,n+1]
        S = self.sym.int(f'skip{self.k}', 0, self.n+1)
        return S + (self.sym.real(f'frac{self.k}', 0, 0.5, denom=2))

def _pow(base, x):
    """r**x by contract for r in [0,1], 0<x<=1"""
    if not is_sym(base): return base**x
    from symx import EX
    if base == 0: return 0
    if x == 1: return base
    k = next(_pow.counter)
    w = _pow.sym.real(f'pow{k}', 0, 1)
    _pow.sym.assume(And(w >= base, w <= 1, w > 0, Or(base >= 1, w < 1)))      # r <= r**x < 1 for 0 < r < 1, 0 < x <= 1
    return w

def _classify_res(v):
    m = v['model']
    if any(k.startswith('u') and val == 0 for k,val in m.items()) and 'uncaught' in v['what']:
        return "uniform-draw-exactly-0:Reservoir raises (log/ZeroDivision)"
    return v['what'][:90]

@obligation('C09','reservoir', bounds={'quick':"N<=4 items (N<=3 for count 2 and 3); count in {None,0,1,2,3}, strict or not; arbitrary uniform stream of which at most one draw is exactly 0.0 (draws of a pre-drawn batch that cannot be consumed for N items are the constant 1/2); libm by contract",'thorough':"N<=4 with count<=4, N=5 with count in {None,0,1}"},
            functions=FUNCS, classify=_classify_res,
            params=lambda tier: [dict(n=n, count=c, strict=s) for n in range(0, 5 if tier=='quick' else 6) for c in ([None,0,1,2,3] if tier=='quick' else [None,0,1,2,3,4]) for s in (False,True) if not (tier == 'quick' and n == 4 and c in (2,3)) and not (tier != 'quick' and n == 5 and c in (2,3,4))],
            stubs=["uniform stream arbitrary", "math.log / ** by contract"], budget={'quick':80,'thorough':900})
def reservoir(sym, n, count, strict):
    inp = make_interactions(sym, n, 'simulated', 'none')
    flt = sym.choice('cls', [pf.Reservoir, ef.Reservoir])(count, strict=strict, seed=1)
    old_math = pf.math
    symbolic = hasattr(sym, 'branch')
    _pow.sym = sym; _pow.counter = itertools.count()
    old_pow = SymReal.__pow__
    try:
        if symbolic:
            pf.math = _MathStub(sym, n)
            SymReal.__pow__ = lambda self, x, m=None: _pow(self, x)
        StubRandom.max_zero = 1
        StubRandom.max_symbolic = (count or 0) + 3*(n+1+StubRandom.max_zero)      # shuffle of the first `count` items, then one (r1,r2,r3) triple per replacement or skipped zero draw
        with stubbed(sym, [pf]):
            out = list(flt.filter(iter(inp)))
    finally:
        pf.math = old_math; SymReal.__pow__ = old_pow; StubRandom.max_zero = None; StubRandom.max_symbolic = None
    exp_len = n if count is None else (0 if (strict and n < count) else min(count, n))
    sym.check(len(out) == exp_len, f"Reservoir: {len(out)} items returned, promised {exp_len}")
    sym.check(len(set(ids(out))) == len(out) and set(ids(out)) <= set(range(n)), "Reservoir: items are not distinct input interactions")
    same_content(sym, out, inp, 'reservoir')
    sym.check(flt.params == {"reservoir_count": count, "reservoir_seed": 1}, "Reservoir params")

class _null:
    def __enter__(self): return self
    def __exit__(self,*a): return False

@obligation('C09','reservoir_seed', bounds="N<=5, count in {1,2,3}, concrete seeds {0,1,5}: two reads give the same sample", functions=FUNCS,
            params=lambda tier: [dict(n=n) for n in range(0,6)])
def reservoir_seed(sym, n):
    inp = make_interactions(sym, n, 'simulated', 'none')
    count = sym.choice('count', [1,2,3]); seed = sym.choice('seed', [0,1,5])
    f1 = ef.Reservoir(count, seed=seed)
    a = ids(f1.filter(iter(inp))); a2 = ids(f1.filter(iter(inp))); b = ids(ef.Reservoir(count, seed=seed).filter(iter(inp)))
    sym.check(a == b and a == a2, "Reservoir: sample not determined by the seed (same instance read twice / a second instance)")
    sym.check(len(a) == min(count,n) and len(set(a)) == len(a), "Reservoir: min(n,N) distinct items")

# ---------------------------------------------------------------------------------------------------
from coba.environments import Environments

class _Env:
    def __init__(self, interactions, name): self._i, self._n = interactions, name
    @property
    def params(self): return {'name': self._n}
    def read(self): return iter([dict(d) for d in self._i])

@obligation('C09','env_shortcuts', bounds="Environments over two custom environments A (2 interactions) and B (3 interactions) with symbolic contexts; shortcut in {cache, chunk, chunk(cache=False), params, take(5), slice(0,None), sort(), where(), unbatch}; both environments read twice in both orders: each must deliver its own interactions",
            functions=FUNCS+['coba.environments.core:Environments.cache','coba.environments.core:Environments.chunk','coba.environments.core:Environments.filter'],
            params=lambda tier: [dict(sc=s) for s in ('cache','chunk','chunk_nc','params','take','slice','sort','where','unbatch','batch_unbatch')])
def env_shortcuts(sym, sc):
    ck = 'dense' if sc == 'sort' else 'scalar'      # Sort() without keys iterates the context: scalar contexts are outside the claim
    A = make_interactions(sym, 2, 'simulated', ck); B = make_interactions(sym, 3, 'simulated', ck)
    for d in A: d['id'] = ('A', d['id'])
    for d in B: d['id'] = ('B', d['id'])
    envs = Environments(_Env(A,'A'), _Env(B,'B'))
    envs = {'cache': lambda e: e.cache(), 'chunk': lambda e: e.chunk(), 'chunk_nc': lambda e: e.chunk(cache=False), 'params': lambda e: e.params({'p':1}),
            'take': lambda e: e.take(5), 'slice': lambda e: e.slice(0,None), 'sort': lambda e: e.sort(), 'where': lambda e: e.where(n_interactions=(1,None)),
            'unbatch': lambda e: e.unbatch(), 'batch_unbatch': lambda e: e.batch(2).unbatch()}[sc](envs)
    sym.check(len(envs) == 2, "shortcut changed the number of environments")
    order = sym.choice('order', [(0,1,0,1),(1,0,1,0),(0,0,1,1)])
    partial_first = sym.flag('partial_first')
    if partial_first:
        it = iter(envs[order[0]].read()); next(it); del it
    src = {0:A, 1:B}
    for k in order:
        out = list(envs[k].read())
        exp = src[k] if sc != 'sort' else [src[k][j] for j in stable_sort_idx(src[k])]
        sym.check(ids(out) == ids(exp), f"environment {'AB'[k]} after .{sc}() delivered {ids(out)} instead of its own interactions")
        for o,e in zip(out,exp): sym.check(tuple(o['context']) == tuple(e['context']) if ck == 'dense' else o['context'] == e['context'], "context altered")

def stable_sort_idx(rows):
    out = []
    for j,r in enumerate(rows):
        pos = len(out)
        while pos > 0 and _key_lt(tuple(r['context']), tuple(rows[out[pos-1]]['context'])): pos -= 1
        out.insert(pos, j)
    return out

# ---------------------------------------------------------------------------------------------------
@obligation('C09','cache_long', bounds="Cache (pipes and environments, slice sizes 2 and 25) over 30 concrete items: history of <=2 steps from {read abandoned after j in {1,3,26} items, full read, pickle round trip} chosen by the solver, then a full read: always the 30 items in order",
            functions=FUNCS, params=lambda tier: [dict(cls=c, k=k) for c in ('pipes','env') for k in (2,25)])
def cache_long(sym, cls, k):
    import pickle
    mk = (lambda: pf.Cache(k)) if cls == 'pipes' else (lambda: ef.Cache(k))
    item = (lambda i: i) if cls == 'pipes' else (lambda i: {'context': i, 'actions': [0,1], 'rewards': [0,1]})
    src = [item(i) for i in range(30)]
    key = (lambda out: list(out)) if cls == 'pipes' else (lambda out: [d['context'] for d in out])
    flt = mk()
    hist = []
    for s in range(sym.choice('steps', [1,2])):
        op = sym.choice(f'op{s}', ['partial1','partial3','partial26','full','pickle'])
        hist.append(op)
        if op.startswith('partial'):
            it = iter(flt.filter(iter(src)))
            for _ in range(int(op[7:])): next(it, None)
            del it
        elif op == 'full':
            sym.check(key(flt.filter(iter(src))) == list(range(30)), f"Cache({k}): full read after {hist[:-1]} is not the 30 items")
        else: flt = pickle.loads(pickle.dumps(flt))
    got = key(flt.filter(iter(src)))
    sym.check(got == list(range(30)), f"Cache({k}): the read after {hist} returns {len(got)} items: {got[:5]}...")

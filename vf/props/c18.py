"""C18 Analysis compares only complete, equal-length runs and averages correctly."""
import itertools
from vf.run import obligation
from symx import is_sym, And, Or

import coba.results.core as rc
from coba.results.core import Result, moving_average, Table
from coba.exceptions import CobaException
from coba.context import CobaContext, NullLogger
CobaContext.logger = NullLogger()

EXPLANATION = ("Result.where/where_fin/where_best/raw_learners and moving_average run on Results whose interaction rewards are symbolic reals and whose set "
               "of existing (environment, learner, evaluator) triples, evaluation lengths and parameter values are solver-enumerated; the filtered "
               "tables are compared with an independent set-based definition of complete pairing groups, referential integrity is checked both ways, and "
               "every reported average is compared with a naive recomputation from the interaction rows as a real-arithmetic identity decided by z3.")
ASSUMPTIONS = ["rewards are exact reals k/2; coba.statistics.mean (C fmean) is replaced by sum/len on proxies",
               "filter order is the documented one: pairing groups are judged on the unfiltered Result, then evaluations are dropped/truncated by length (re-pairing after the length filter is not demanded)",
               "order of the per-environment values inside one raw_learners cell follows (environment_id, evaluator_id) order of the sorted interactions",
               "moving_average with weights: len<=3 (nonlinear rational identities); 'exp' follows pandas ewm(span).mean() (adjust=True)"]
FUNCS = ['coba.results.core:Result.__init__','coba.results.core:Result.copy','coba.results.core:Result.where','coba.results.core:Result.filter_fin','coba.results.core:Result._filter_fin',
         'coba.results.core:Result._group_p','coba.results.core:Result._global_n','coba.results.core:Result._remove','coba.results.core:Result._grouped_ys','coba.results.core:Result.raw_learners',
         'coba.results.core:Result.filter_best','coba.results.core:Result.filter_env','coba.results.core:Result.filter_lrn','coba.results.core:moving_average','coba.utilities:grouper']

_real_mean = rc.mean
def _mean(sample):
    sample = list(sample)
    if any(is_sym(v) for v in sample): return sum(sample)/len(sample)
    return _real_mean(sample)
rc.mean = _mean

ENV_PARAMS = [{'a':1},{'a':2},{'a':1}]          # environment 2 duplicates the parameter value of environment 0
LRN_PARAMS = [{'family':'fx'},{'family':'fy'},{'family':'fx'}]

def build(sym, ne, nl, nv, fixed_len=None):
    """Result with solver-chosen existing triples / lengths and symbolic rewards"""
    evals = {}
    rows = []
    for e in range(ne):
        for l in range(nl):
            for v in range(nv):
                if not sym.flag(f'has{e}{l}{v}'): continue
                n = sym.choice(f'len{e}{l}{v}', [1,2,3]) if fixed_len is None else fixed_len(e,l,v)
                ys = [sym.real(f'y{e}{l}{v}_{i}', -2, 2, denom=2) for i in range(n)]
                evals[(e,l,v)] = ys
                for i,y in enumerate(ys): rows.append([e,l,v,i+1,y])
    envs = [['environment_id','a']] + [[e, ENV_PARAMS[e]['a']] for e in range(ne)]
    lrns = [['learner_id','family']] + [[l, LRN_PARAMS[l]['family']] for l in range(nl)]
    vals = [['evaluator_id','eval_type']] + [[v, f'V{v}'] for v in range(nv)]
    ints = [['environment_id','learner_id','evaluator_id','index','reward']] + rows
    return Result(envs, lrns, vals, ints), evals

def table_rows(t, cols): return [list(r) for r in zip(*[t[c] for c in cols])] if len(t) else []

def check_result(sym, res, expected, what, both_ways=True):
    """expected: dict (e,l,v) -> list of rewards that must remain, everything else gone"""
    got = {}
    for e,l,v,i,y in table_rows(res.interactions, ['environment_id','learner_id','evaluator_id','index','reward']):
        got.setdefault((e,l,v), []).append((i,y))
    sym.check(set(got) == set(expected), f"{what}: evaluations kept {sorted(got)} expected {sorted(expected)}")
    for k in expected:
        if k not in got: continue
        sym.check([i for i,_ in got[k]] == list(range(1,len(expected[k])+1)), f"{what}: evaluation {k} has indexes {[i for i,_ in got[k]]}, expected 1..{len(expected[k])}")
        for (i,y),ey in zip(got[k], expected[k]): sym.check(y == ey, f"{what}: a remaining reward value was changed")
    # referential integrity, both ways
    for col,tab,pos in (('environment_id',res.environments,0),('learner_id',res.learners,1),('evaluator_id',res.evaluators,2)):
        ids_tab = sorted(tab[col]) if len(tab) else []
        ids_int = sorted({k[pos] for k in got})
        if both_ways: sym.check(ids_tab == ids_int, f"{what}: {col}s in the parameter table {ids_tab} != ids referenced by interactions {ids_int}")
        else: sym.check(set(ids_int) <= set(ids_tab), f"{what}: interactions reference {col}s {ids_int} missing from the parameter table {ids_tab}")

def pairing_reference(evals, lkey, pkey):
    lval = lambda k: k[1] if lkey == 'learner_id' else LRN_PARAMS[k[1]]['family']
    pval = lambda k: k[0] if pkey == 'environment_id' else ENV_PARAMS[k[0]]['a']
    levels = {lval(k) for k in evals}
    groups = {}
    for k in evals: groups.setdefault(pval(k), []).append(k)
    keep = []
    for g in groups.values():
        ls = [lval(k) for k in g]
        if sorted(ls, key=str) == sorted(levels, key=str): keep += g      # exactly one evaluation for every level
    return keep

def fin_params(tier):
    shapes = [(2,2,1),(2,2,2)] if tier == 'quick' else [(2,2,1),(2,2,2),(3,2,1),(3,2,2)]    # 3x3x1 (4^9 existence/length patterns per parameter set) ran past an hour and is left out
    return [dict(ne=a,nl=b,nv=c,n=n,lp=lp) for a,b,c in shapes for n in (None,'min',1,2,3) for lp in (('learner_id','environment_id'),('family','environment_id'),('learner_id','a'))
            if not (lp != ('learner_id','environment_id') and n in (1,3))] + [dict(ne=a,nl=b,nv=c,n=n,lp=None) for a,b,c in shapes for n in ('min',1,2,3)]     # lp=None: the length constraint alone

def _classify_fin(v):
    w = v['what']
    if 'evaluations kept' in w and 'l=None' not in w and v['choices'].get('nv_gt1'): return "pairing group with a learner under two evaluators and another learner missing is kept"
    return w.split(':')[0][:100]

@obligation('C18','where_fin', bounds={'quick':"<=2 environments x 2 learners x <=2 evaluators; which triples exist enumerated, lengths in {1,2,3} enumerated (one of three fixed patterns when 2 evaluators); rewards symbolic; n in {None,'min',1,2,3}; (l,p) in {(learner_id,environment_id),(family,environment_id),(learner_id,a)} with duplicate parameter values, or no (l,p) at all (length constraint alone)",
                                       'thorough':"up to 3x2x1 and 3x2x2"},
            functions=FUNCS, params=fin_params, classify=_classify_fin, budget={'quick':80,'thorough':1500})
def where_fin(sym, ne, nl, nv, n, lp):
    if nv == 1: fl = None
    else:
        pat = sym.choice('lengths', ['mixed','first_short','last_short'])          # with 2 evaluators the lengths follow one of three fixed patterns
        fl = {'mixed': (lambda e,l,v: (e+2*l+v) % 3 + 1), 'first_short': (lambda e,l,v: [1,3][v]), 'last_short': (lambda e,l,v: [3,1][v])}[pat]
    res, evals = build(sym, ne, nl, nv, fixed_len=fl)
    sym.choices['nv_gt1'] = nv > 1
    if not evals: sym.assume(False)
    if lp is None:
        # the length constraint alone is only asked to keep consistent what was consistent: every listed component has an evaluation in the source
        if not ({k[0] for k in evals} == set(range(ne)) and {k[1] for k in evals} == set(range(nl)) and {k[2] for k in evals} == set(range(nv))): sym.assume(False)
        l = p = None
        out = res.where_fin(n) if sym.flag('public') else res.filter_fin(n)
        keep = list(evals)
    else:
        l, p = lp
        out = res.where_fin(n, l, p) if sym.flag('public') else res.filter_fin(n, l, p)
        keep = pairing_reference(evals, l, p)
    expected = {k: evals[k] for k in keep}
    if n == 'min' and expected:
        m = min(len(v) for v in expected.values()); expected = {k: v[:m] for k,v in expected.items()}
    elif isinstance(n, int):
        expected = {k: v[:n] for k,v in expected.items() if len(v) >= n}
    check_result(sym, out, expected, f"where_fin(n={n},l={l},p={p})")
    # the source Result is untouched
    src = {}
    for e,l_,v,i,y in table_rows(res.interactions, ['environment_id','learner_id','evaluator_id','index','reward']): src.setdefault((e,l_,v),[]).append(y)
    sym.check(set(src) == set(evals) and all(len(src[k]) == len(evals[k]) and all(a == b for a,b in zip(src[k],evals[k])) for k in evals), "where_fin modified the Result it was called on")

def ref_moving_average(ys, span):
    out = []
    for i in range(len(ys)):
        w = ys[:i+1] if (span is None or span >= len(ys)) else ys[max(0,i+1-span):i+1]
        out.append(sum(w)/len(w))
    return out

def is_sym_like(v): return not isinstance(v, (int, float))

@obligation('C18','raw_learners', bounds={'quick':"2 environments x 2 learners x 1 evaluator, existing triples and lengths enumerated, rewards symbolic; x in {index, a}; span in {None,1,2,3}; l in {learner_id, family}",
                                          'thorough':"3x2x1, span in {None,1,2,3}"},
            functions=FUNCS, budget={'quick':80,'thorough':1500},
            params=lambda tier: [dict(ne=ne, x=x, span=s, l=l) for ne in ((2,) if tier=='quick' else (2,3)) for x in ('index','a') for s in ((None,1,2,3) if tier=='quick' else (None,1,2,3,5)) for l in ('learner_id','family')] + [dict(ne=ne, x='a', span=s, l=l, p=None) for ne in ((2,) if tier=='quick' else (2,3)) for s in (None,2) for l in ('learner_id','family')])     # p=None: no pairing, a label may lack an x that another label has
def raw_learners(sym, ne, x, span, l, p='environment_id'):
    res, evals = build(sym, ne, 2, 1)
    if not evals: sym.assume(False)
    try:
        t = res.raw_learners(x=x, y='reward', l=l, p=p, span=span)
    except CobaException:
        keep = pairing_reference(evals, l, 'environment_id') if p else list(evals)
        sym.check(not keep, "raw_learners refused a Result that has a complete pairing group"); return
    keep = pairing_reference(evals, l, 'environment_id') if p else list(evals)
    sym.check(bool(keep), "raw_learners produced data although no pairing group is complete")
    lval = lambda k: k[1] if l == 'learner_id' else LRN_PARAMS[k[1]]['family']
    data = {c: t[c] for c in t.columns}
    if x == 'index':
        m = min(len(evals[k]) for k in keep)
        sym.check(list(data['x']) == list(range(1,m+1)), f"x axis {list(data['x'])} expected 1..{m}")
        for lv in sorted({lval(k) for k in keep}, key=str):
            ks = sorted(k for k in keep if lval(k) == lv)
            sym.check(lv in data, f"learner {lv!r} missing from raw_learners");
            if lv not in data: continue
            for i in range(m):
                exp = [ref_moving_average(evals[k][:m], span)[i] for k in ks]
                got = list(data[lv][i])
                sym.check(len(got) == len(exp), f"index {i+1}: {len(got)} per-environment values, expected {len(exp)}")
                for g,e_ in zip(got,exp): sym.check(g == e_, f"index {i+1}, learner {lv!r}: not the {'progressive' if span is None else f'span-{span} windowed'} average of the interaction rows")
    else:
        xs = sorted({ENV_PARAMS[k[0]]['a'] for k in keep})
        sym.check(list(data['x']) == xs, f"x axis {list(data['x'])} expected {xs}")
        for lv in sorted({lval(k) for k in keep}, key=str):
            if lv not in data: sym.fail(f"learner {lv!r} missing from raw_learners")
            for xi,xv in enumerate(xs):
                ks = sorted(k for k in keep if lval(k) == lv and ENV_PARAMS[k[0]]['a'] == xv)
                exp = []
                for k in ks:
                    Y = evals[k]
                    exp.append(Y[-1] if span == 1 else (sum(Y[-span:])/len(Y[-span:]) if span else sum(Y)/len(Y)))
                got = list(data[lv][xi])
                if not exp:
                    sym.check(len(got) == 1 and not is_sym_like(got[0]) and got[0] != got[0], f"x={xv}, learner {lv!r}: no evaluation at this x, expected [nan], got {len(got)} values")
                    continue
                sym.check(len(got) == len(exp), f"x={xv}: {len(got)} per-environment values, expected {len(exp)}")
                for g,e_ in zip(got,exp): sym.check(g == e_, f"x={xv}, learner {lv!r}: not the final {'progressive' if span is None else f'last-{span}'} average of the evaluation")

def ma_params(tier):
    L = 4 if tier == 'quick' else 5
    ps = [dict(n=n, span=s, w=None) for n in range(1,L+1) for s in (None,1,2,3,5)]
    ps += [dict(n=n, span=s, w='exp') for n in range(1,L+1) for s in (1,2,3)]
    ps += [dict(n=n, span=s, w='sym') for n in (1,2,3) for s in (None,2,5)]
    return ps

@obligation('C18','moving_average', bounds={'quick':"values symbolic reals, len<=4; span in {None,1,2,3,5}; weights None, 'exp' (span 1..3) or symbolic positive (len<=3)",'thorough':"len<=5"},
            functions=FUNCS, params=ma_params, solver_timeout_ms=60000)
def moving_average_def(sym, n, span, w):
    ys = [sym.real(f'y{i}', -4, 4) for i in range(n)]
    if w == 'sym': ws = [sym.real(f'w{i}', 0.25, 4) for i in range(n)]
    else: ws = w
    got = list(moving_average(list(ys), span, ws if ws != None else None))
    sym.check(len(got) == n, "moving_average length")
    for i in range(n):
        if w == 'exp':
            import fractions
            q = fractions.Fraction(1-2/(1+span))       # the float constant the code uses, taken exactly
            num = sum((q**j)*ys[i-j] for j in range(i+1)); den = sum((q**j) for j in range(i+1))
            exp = num/den
        else:
            lo = 0 if (span is None or span >= n) else max(0, i+1-span)
            if span == 1: lo = i
            idx = range(lo, i+1)
            if w is None: exp = sum(ys[j] for j in idx)/len(idx)
            else: exp = sum(ys[j]*ws[j] for j in idx)/sum(ws[j] for j in idx)
            if span == 1 and w == 'sym': exp = ys[i]
        if w == 'exp':
            # the code's divisor is accumulated in binary64: equality up to rounding (values are bounded by 4)
            d = got[i]-exp
            sym.check((d <= 1e-9) & (d >= -1e-9), f"moving_average[{i}] differs from the textbook definition (n={n},span={span},weights={w})")
        else:
            sym.check(got[i] == exp, f"moving_average[{i}] differs from the textbook definition (n={n},span={span},weights={w})")

@obligation('C18','where_chain', bounds="2 environments x 2 learners x 1 evaluator; chains where(learner_id=k).where_fin(), where_fin().where(learner_id=k), where(environment_id=k), where_best('family','environment_id')-consistency: tables stay mutually consistent and only rows of the selected ids remain",
            functions=FUNCS, params=lambda tier: [dict(chain=c) for c in ('lrn_then_fin','fin_then_lrn','env','best','lrn_in')])
def where_chain(sym, chain):
    res, evals = build(sym, 2, 3 if chain == 'best' else 2, 1, fixed_len=(None if chain != 'best' else (lambda e,l,v: 1+(e+l)%2)))
    if not evals: sym.assume(False)
    k = sym.choice('k', [0,1])
    if chain == 'lrn_then_fin':
        out = res.where(learner_id=k).where_fin('min','learner_id','environment_id')
        sub = {e:v for e,v in evals.items() if e[1] == k}
        keep = pairing_reference(sub, 'learner_id', 'environment_id')
        exp = {e: sub[e] for e in keep}
        if exp: m = min(len(v) for v in exp.values()); exp = {e:v[:m] for e,v in exp.items()}
    elif chain == 'fin_then_lrn':
        keep = pairing_reference(evals, 'learner_id', 'environment_id')
        exp = {e: evals[e] for e in keep if e[1] == k}
        out = res.where_fin(None,'learner_id','environment_id').where(learner_id=k)
    elif chain == 'env':
        out = res.where(environment_id=k); exp = {e:v for e,v in evals.items() if e[0] == k}
    elif chain == 'lrn_in':
        out = res.where(learner_id=[k]); exp = {e:v for e,v in evals.items() if e[1] == k}
    else:
        out = res.where_best('family','environment_id')
        keep = pairing_reference(evals, 'learner_id', 'environment_id')
        got = {}
        for e,l,v,i,y in table_rows(out.interactions, ['environment_id','learner_id','evaluator_id','index','reward']): got.setdefault((e,l,v),[]).append(y)
        sym.check(set(got) <= set(keep), "where_best kept an evaluation of an incomplete environment")
        exp = {e: evals[e] for e in got}
    check_result(sym, out, exp, chain, both_ways=chain in ('lrn_then_fin','best'))

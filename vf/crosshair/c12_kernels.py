"""CrossHair harnesses (PEP-316 contracts) for the pure-Python string kernels of C12. Each function calls the REAL coba code."""
from typing import List
from coba.pipes.sources import DelimSource, IterableSource
from coba.pipes.readers import ArffDataReader

def _delim2(t: str, k: int) -> List[str]:
    return list(DelimSource(IterableSource([t[:k], t[k:]])).read())

def delim_lf(t: str, k: int) -> bool:
    """
    pre: len(t) <= 4 and 0 <= k <= len(t)
    pre: all(c in 'a' + chr(10) for c in t)
    post: _
    """
    return _delim2(t, k) == t.splitlines()

def delim_crlf(t: str, k: int) -> bool:
    """
    pre: len(t) <= 4 and 0 <= k <= len(t)
    pre: all(c in 'a' + chr(10) + chr(13) for c in t)
    post: _
    """
    return _delim2(t, k) == t.splitlines()

def delim_any(t: str, k: int) -> bool:
    """
    pre: len(t) <= 3 and 0 <= k <= len(t)
    post: _
    """
    return _delim2(t, k) == t.splitlines()

def delim3_lf(t: str, k: int, j: int) -> bool:
    """
    pre: len(t) <= 4 and 0 <= k <= j <= len(t)
    pre: all(c in 'a' + chr(10) for c in t)
    post: _
    """
    return list(DelimSource(IterableSource([t[:k], t[k:j], t[j:]])).read()) == t.splitlines()

def arff_dense_missing(line: str) -> bool:
    """
    pre: 1 <= len(line) <= 5
    pre: all(c in '?,a ' for c in line)
    pre: line[0] != '%'
    post: _
    """
    (got_line, missing), = list(ArffDataReader(True)._dense([line]))
    cells = [c.strip() for c in line.split(',')]
    return missing == any(c == '?' for c in cells)

def arff_sparse_missing(line: str) -> bool:
    """
    pre: 3 <= len(line) <= 7
    pre: line[0] == '{' and line[-1] == '}'
    pre: all(c in '?,1a ' for c in line[1:-1])
    post: _
    """
    (got_line, missing), = list(ArffDataReader(False)._sparse([line]))
    items = [i.split() for i in line[1:-1].split(',')]
    return missing == any(len(i) == 2 and i[1] == '?' for i in items)

"""Baton-thread simulation of the concurrency primitives used by coba.pipes.multiprocessing.

Every participant (consumer, loader thread, worker "processes", the join-and-callback threads) is a real Python
thread, but only the one holding the baton runs; at every primitive operation (queue put/get, event wait, start of
a participant) the baton goes back to the scheduler, which picks the next runnable participant. The scheduler is
deterministic (run-to-block round-robin) except for a bounded number of *delays* whose positions are solver
variables (delay-bounded scheduling, Emmi/Qadeer/Rakamaric 2011): the harness decides `step == d_k` through z3 and
the explorer enumerates every feasible placement.
"""
import threading, collections, copy
from queue import Empty

class _Kill(BaseException): pass

class Actor:
    def __init__(self, name, fn, sched):
        self.name, self.fn, self.sched = name, fn, sched
        self.sem = threading.Semaphore(0)
        self.pred = None
        self.done = False
        self.error = None
        self.thread = threading.Thread(target=self._body, daemon=True)
    def _body(self):
        self.sem.acquire()
        try:
            if not self.sched.killing:
                self.sched.tls.actor = self
                self.fn()
        except _Kill: pass
        except BaseException as e: self.error = e
        finally:
            self.done = True
            self.sched.main_sem.release()
    def enabled(self):
        return (not self.done) and (self.pred is None or self.pred())

class Sched:
    def __init__(self):
        self.actors = []
        self.main_sem = threading.Semaphore(0)
        self.killing = False
        self.tls = threading.local()
        self.trace = []
        self.steps = 0
    # -- called from actor threads -------------------------------------------------------------
    def current(self): return getattr(self.tls, 'actor', None)
    def spawn(self, name, fn):
        a = Actor(f"{name}#{len(self.actors)}", fn, self)
        self.actors.append(a)
        a.thread.start()
        return a
    def wait(self, pred=None, label=''):
        """yield the baton; resumed only when pred() holds"""
        if self.killing: raise _Kill()
        a = self.current()
        a.pred = pred
        a.label = label
        self.main_sem.release()
        a.sem.acquire()
        a.pred = None
        if self.killing: raise _Kill()
    # -- called from the harness (scheduler) thread --------------------------------------------
    def run(self, choose, goal, max_steps=600):
        """choose(step, enabled, default_index) -> index into enabled. Returns 'goal' | 'deadlock' | 'steps'."""
        last = None
        while True:
            if goal(): return 'goal'
            enabled = [a for a in self.actors if a.enabled()]
            if not enabled: return 'deadlock'
            if self.steps >= max_steps: return 'steps'
            if last is not None and last in enabled: d = enabled.index(last)
            elif last is None: d = 0
            else:
                li = self.actors.index(last)
                d = next((i for i,a in enumerate(enabled) if self.actors.index(a) > li), 0)
            i = choose(self.steps, enabled, d)
            a = enabled[i]
            self.trace.append(a.name)
            self.steps += 1
            last = a
            a.sem.release()
            self.main_sem.acquire()
    def kill(self):
        self.killing = True
        for a in self.actors:
            if not a.done: a.sem.release()
        for a in self.actors: a.thread.join(2)

class SimQueue:
    def __init__(self, sched, maxsize=0): self.s, self.maxsize, self.items = sched, maxsize, collections.deque()
    def __deepcopy__(self, memo): return self
    def put(self, x):
        self.s.wait((lambda: len(self.items) < self.maxsize) if self.maxsize else None, 'put')
        self.items.append(x)
    def get(self):
        self.s.wait(lambda: len(self.items) > 0, 'get')
        return self.items.popleft()
    def get_nowait(self):
        if not self.items: raise Empty()
        return self.items.popleft()
    def qsize(self): return len(self.items)
    def close(self): pass

class SimEvent:
    def __init__(self, sched): self.s, self.flag = sched, False
    def __deepcopy__(self, memo): return self
    def set(self): self.flag = True
    def is_set(self): return self.flag
    def wait(self, timeout=None): self.s.wait(lambda: self.flag, 'event')

class SimContext:
    def __init__(self, sched): self.s = sched; self.queues = []
    def Queue(self, maxsize=0):
        q = SimQueue(self.s, maxsize); self.queues.append(q); return q
    def Event(self): return SimEvent(self.s)

def make_lines(sched, real_thread_line, log):
    """stand-ins for MyProcessLine / ThreadLine bound to one scheduler"""
    from traceback import format_tb

    import coba.pipes.lines as _cpl
    import coba.pipes.multiprocessing as _cpm

    class SimProcessLine:
        """the glue of coba.pipes.lines.ProcessLine / MyProcessLine (spawn, result pipe, join-and-callback thread, read-wait
        hand-shake) re-expressed on actors: the child works on a deep copy of the line (as a spawned child works on an
        unpickled copy) that shares the simulated queues/events and executes the REAL ProcessLine.run (exception capture and
        wrapping, poisoned flag) on it; its result tuple is delivered through a stand-in for the pipe when it ends."""
        n = 0
        def __init__(self, line, callback=None, read_wait_store=None):
            self._line, self._callback, self._rw = line, callback, read_wait_store
            self.exitcode, self.pid = None, None
            self._alive = False
        def start(self):
            SimProcessLine.n += 1
            self.pid = SimProcessLine.n
            child_line = copy.deepcopy(self._line)
            self._alive = True
            me = self
            if self._rw is not None:                      # as MyProcessLine.start
                self._wait = _cpm.spawn_context.Event()
                self._wait_key = _cpm.UniqueKey()
                self._rw[self._wait_key] = self._wait
            class _Pipe:
                def send(self, x): me._result = x
            class _Child: pass
            ch = _Child(); ch._line = child_line; ch._send = _Pipe()
            def child():
                _cpl.ProcessLine.run(ch)                  # the real run(): try line.run(), capture/wrap the exception, send the result
                if hasattr(me, '_wait'):                  # as MyProcessLine.run
                    child_line[-1].write([me._wait_key])
                    me._wait.wait()
                me.exitcode = 0
                me._alive = False
            a = sched.spawn(f"worker{self.pid}", child)
            log.append(('start', a.name))
            self._actor = a
            if self._callback:
                cb = self._callback
                def join_and_call():
                    sched.wait(lambda: a.done, 'join')
                    me._exception, me._traceback, me._poisoned = getattr(me, '_result', (None,None,False))
                    cb(me)
                sched.spawn(f"join{self.pid}", join_and_call)
            sched.wait(None, 'start')
        def is_alive(self): return self._alive
        @property
        def pipeline(self): return self._line
        @property
        def exception(self): return getattr(self, '_exception', None)
        @property
        def poisoned(self): return getattr(self, '_poisoned', False)

    class SimThreadLine(real_thread_line):
        """the real ThreadLine.run executed on an actor; start()/join glue re-expressed on actors"""
        def start(self):
            me = self
            a = sched.spawn("loader", lambda: real_thread_line.run(me))
            self._actor = a
            if self._callback:
                def join_and_call():
                    sched.wait(lambda: a.done, 'join')
                    me._callback(me)
                sched.spawn("loaderjoin", join_and_call)
            sched.wait(None, 'start')
        def is_alive(self):
            a = getattr(self, '_actor', None)
            return a is not None and not a.done
        def join(self, timeout=None):
            a = getattr(self, '_actor', None)
            if a is not None: sched.wait(lambda: a.done, 'join loader')

    return SimProcessLine, SimThreadLine

"""Runner: obligation registry, process pool, replay, known-findings matcher, evidence."""
import sys, os, json, time, argparse, importlib, inspect, hashlib, traceback, tempfile, shutil
import multiprocessing as mp

HERE = os.path.dirname(os.path.dirname(os.path.abspath(__file__)))
sys.path.insert(0, HERE)

import symx
from symx import Explorer, Inconclusive, replay as sx_replay, _jsonable, discover_prefixes

REGISTRY = {}   # prop -> list of Obligation

class Obligation:
    def __init__(self, prop, name, fn, bounds, params, functions, stubs, out, classify, budget, solver_timeout_ms, raw):
        self.prop, self.name, self.fn = prop, name, fn
        self.bounds, self.params, self.functions = bounds, params, functions
        self.stubs, self.out, self.classify = stubs, out, classify
        self.budget, self.solver_timeout_ms, self.raw = budget, solver_timeout_ms, raw
    @property
    def id(self): return f"{self.prop}.{self.name}"

def obligation(prop, name, bounds, functions, params=None, stubs=(), out=(), classify=None,
               budget=None, solver_timeout_ms=20000, raw=False):
    """Register a harness `h(sym, **param)`.

    params(tier) -> list of dict : concrete structure parameters, one pool task each.
    functions : ['module:qualname', ...] real coba functions the harness executes.
    classify(violation_dict) -> str : input-class signature used for known-findings matching.
    raw : the function is `h(tier, param) -> result dict` doing its own solving (direct SMT lemmas).
    """
    def deco(fn):
        o = Obligation(prop, name, fn, bounds, params or (lambda tier: [{}]), list(functions), list(stubs),
                       list(out), classify, budget or {'quick': 60, 'thorough': 900}, solver_timeout_ms, raw)
        REGISTRY.setdefault(prop, []).append(o)
        return fn
    return deco

def resolve(spec):
    mod, _, qual = spec.partition(':')
    m = importlib.import_module(mod)
    obj = m
    for part in qual.split('.'):
        obj = getattr(obj, part)
    return obj

def source_hash(spec):
    obj = resolve(spec)
    if isinstance(obj, property): obj = obj.fget
    obj = inspect.unwrap(obj) if callable(obj) else obj
    try:
        src = inspect.getsource(obj)
    except (TypeError, OSError):
        src = repr(obj)
    return hashlib.sha1(src.encode()).hexdigest()[:12]

def _load(prop):
    importlib.import_module(f"vf.props.{prop.lower()}")
    return REGISTRY.get(prop, [])

# -----------------------------------------------------------------------------------------
def _run_task(args):
    prop, oname, param, tier, seed, forced = args
    os.environ['VERIF_SEED'] = str(seed)
    os.environ['VERIF_TIER_EFFECTIVE'] = tier
    obls = _load(prop)
    o = next(x for x in obls if x.name == oname)
    t0 = time.time()
    res = dict(obligation=o.id, param=_jsonable(param), verdict='holds', paths=0, reached=0, branches=0,
               queries=0, solver_s=0.0, violations=[], inconclusive=None, samples=[], checks=0)
    # encoded functions must exist (else: encoding unavailable -> inconclusive, never a violation)
    try:
        res['functions'] = {f: source_hash(f) for f in o.functions}
    except Exception as e:
        res['verdict'] = 'inconclusive'; res['inconclusive'] = f"encoding unavailable: {type(e).__name__}: {e}"
        res['wall_s'] = time.time()-t0
        return res
    budget = o.budget.get(tier, 60)
    if o.raw:
        try:
            r = o.fn(tier, dict(param))
            res.update(r)
        except Inconclusive as e:
            res['verdict'] = 'inconclusive'; res['inconclusive'] = str(e)
        except Exception as e:
            res['verdict'] = 'error'; res['inconclusive'] = f"harness error: {traceback.format_exc()[-1500:]}"
        res['wall_s'] = time.time()-t0
        return res
    ex = Explorer(deadline=t0+budget, solver_timeout_ms=o.solver_timeout_ms)
    ex.forced = list(forced)
    res['forced'] = list(forced)
    h = lambda sym: o.fn(sym, **param)
    try:
        ex.explore(h)
    except Inconclusive as e:
        res['verdict'] = 'inconclusive'; res['inconclusive'] = str(e)
    except Exception as e:
        res['verdict'] = 'error'; res['inconclusive'] = f"harness error: {traceback.format_exc()[-1500:]}"
    st = ex.stats
    res.update(paths=st['paths'], reached=st['reached'], branches=st['branches'], queries=st['queries'],
               solver_s=round(st['solver_s'],4), checks=st['checks'], samples=ex.samples[:3])
    # replay each distinct counterexample against the real code without proxies
    seen = set()
    for v in ex.violations:
        try: sig = o.classify(v) if o.classify else v['what'].split(' @')[0][:80]
        except Exception: sig = v['what'].split(' @')[0][:80]      # a failing classifier must never hide a counterexample
        key = (sig,)
        if key in seen: continue
        seen.add(key)
        ok, desc = sx_replay(h, v['model'], v['choices'])
        if not ok and v.get('path_model') is not None:
            merged = dict(v['model']); merged.update(v['path_model'])
            ok2, desc2 = sx_replay(h, merged, v['choices'])
            if ok2: ok, desc, v = ok2, desc2, dict(v, model=merged)
        res['violations'].append(dict(what=v['what'], signature=sig, model=_jsonable(v['model']),
                                      choices=v['choices'], info=_jsonable(v.get('info',{})),
                                      replayed=ok, replay_desc=desc))
    if res['violations'] and res['verdict'] == 'holds':
        res['verdict'] = 'counterexample'
    res['n_counterexamples'] = len(ex.violations)
    res['wall_s'] = round(time.time()-t0, 3)
    return res

# -----------------------------------------------------------------------------------------
def _split_task(args):
    prop, oname, param, tier, seed, per = args
    if per <= 1: return [(prop, oname, param, tier, seed, [])]
    o = next(x for x in _load(prop) if x.name == oname)
    try:
        pres = discover_prefixes(lambda sym: o.fn(sym, **param), target=per)
    except Exception:
        pres = [[]]
    return [(prop, oname, param, tier, seed, pre) for pre in pres]

def load_known():
    p = os.path.join(HERE, 'known_findings.json')
    if not os.path.exists(p): return []
    return json.load(open(p))['findings']

def matches(entry, prop, obl_id, sig):
    if entry.get('status') != 'known': return False
    if entry['property'] != prop: return False
    if entry['obligation'] != obl_id: return False
    return entry['signature'] == sig

LEVEL = 'model_checking'

def main():
    ap = argparse.ArgumentParser()
    ap.add_argument('prop', nargs='?')
    ap.add_argument('--tier', default=os.environ.get('VERIF_TIER','quick'), choices=['quick','thorough'])
    ap.add_argument('--replay')
    ap.add_argument('--setup', action='store_true')
    ap.add_argument('--only', help='run only obligations whose name contains this')
    ap.add_argument('--jobs', type=int, default=int(os.environ.get('VERIF_JOBS','16')))
    ap.add_argument('--no-evidence', action='store_true')
    ap.add_argument('--split', type=int, default=256, help='target number of pool tasks per obligation')
    a = ap.parse_args()
    seed = int(os.environ.get('VERIF_SEED','0') or 0)

    if a.setup:
        from symx import selftest
        sys.exit(selftest.main())

    if a.replay:
        r = json.load(open(a.replay))
        obls = _load(r['property'])
        o = next(x for x in obls if x.id == r['obligation'])
        if o.raw:
            rr = o.fn('quick', dict(r['param']))
            ok = rr.get('verdict') == 'counterexample'; desc = '; '.join(v['what'] for v in rr.get('violations',[])) or rr.get('verdict')
        else:
            ok, desc = sx_replay(lambda sym: o.fn(sym, **r['param']), r['model'], r['choices'])
        print(("REPRODUCED: " if ok else "NOT REPRODUCED: ")+desc)
        sys.exit(1 if ok else 0)

    prop = a.prop
    t0 = time.time()
    obls = _load(prop)
    if not obls:
        print(f"no obligations registered for {prop}"); sys.exit(2)
    pre_tasks = []
    for o in obls:
        if a.only and a.only not in o.name: continue
        ps = o.params(a.tier)
        per = min(64, max(6, a.split // max(1,len(ps))))
        for p in ps:
            pre_tasks.append((prop, o.name, p, a.tier, seed, 1 if o.raw else per))
    ctx = mp.get_context('fork')
    with ctx.Pool(min(a.jobs, max(1,len(pre_tasks)))) as pool:
        split = pool.map(_split_task, pre_tasks, chunksize=max(1,len(pre_tasks)//(a.jobs*8)))
        tasks = [t for ts in split for t in ts]
        results = pool.map(_run_task, tasks, chunksize=1)

    if os.environ.get('VERIF_DEBUG'):
        for r in sorted(results, key=lambda r:-r.get('wall_s',0))[:15]:
            print('DEBUG', r['obligation'], r['param'], r['verdict'], 'paths',r['paths'],'queries',r['queries'],'wall',r.get('wall_s'))
    # vacuity guard (reachability twin): every (obligation,param) must have a feasible path reaching an assertion
    reach = {}
    for r in results:
        k = (r['obligation'], json.dumps(r['param'],sort_keys=True))
        reach[k] = reach.get(k,0) + r.get('reached',0) + (1 if r['verdict'] in ('inconclusive','error') or r.get('raw_ok') else 0)
    for r in results:
        k = (r['obligation'], json.dumps(r['param'],sort_keys=True))
        if reach[k] == 0 and r['verdict'] == 'holds':
            r['verdict'] = 'error'; r['inconclusive'] = 'vacuous: no feasible path reached an assertion'; reach[k] = -1
    known = load_known()
    os.makedirs(os.path.join(HERE,'replays'), exist_ok=True)
    lines, exit_code = [], 0
    n_viol = n_known = n_incon = n_err = 0
    kf_printed = set()
    rep_n = 0
    for r in results:
        if r['verdict'] == 'error':
            n_err += 1
            print(f"HARNESS-ERROR {r['obligation']} {r['param']}: {r['inconclusive']}", file=sys.stderr)
        elif r['verdict'] == 'inconclusive':
            n_incon += 1
            print(f"INCONCLUSIVE {r['obligation']} {r['param']}: {r['inconclusive']}")
        for v in r['violations']:
            if not v['replayed']:
                n_err += 1
                print(f"HARNESS-ERROR {r['obligation']} {r['param']}: counterexample did not replay on the real code "
                      f"({v['what']} / {v['replay_desc']}) model={v['model']} choices={v['choices']}", file=sys.stderr)
                continue
            k = next((e for e in known if matches(e, prop, r['obligation'], v['signature'])), None)
            if k is not None:
                n_known += 1
                key = (r['obligation'], v['signature'])
                if key not in kf_printed:
                    kf_printed.add(key)
                    print(f"KNOWN-FINDING: property={prop} {r['obligation']} [{v['signature']}] {k.get('what','')}")
                continue
            n_viol += 1
            rep_n += 1
            path = os.path.join(HERE,'replays',f"{prop}-{r['obligation'].split('.',1)[1]}-{rep_n}.json")
            json.dump(dict(property=prop, obligation=r['obligation'], param=r['param'], model=v['model'],
                           choices=v['choices'], what=v['what'], signature=v['signature'], observed=v['replay_desc'],
                           info=v['info'], reproduce=f"./check {prop} --replay {path}"), open(path,'w'), indent=1)
            print(f"VIOLATION property={prop} replay={path}")
            print(f"  {r['obligation']} {r['param']} [{v['signature']}]: {v['what']} :: {v['replay_desc']}")
            print(f"  model={v['model']} choices={v['choices']} info={v['info']}")
    wall = time.time()-t0
    if n_viol: exit_code = 1
    elif n_err: exit_code = 2

    # ---- evidence ----
    if not a.no_evidence and not a.only:
        mod = sys.modules[f"vf.props.{prop.lower()}"]
        per_obl = {}
        for r in results:
            d = per_obl.setdefault(r['obligation'], dict(tasks=0, paths=0, reached=0, branches=0, queries=0, solver_s=0.0,
                                                        holds=0, counterexample=0, inconclusive=0, error=0, wall_s=0.0, checks=0))
            d['tasks'] += 1
            for k in ('paths','reached','branches','queries','solver_s','wall_s','checks'):
                d[k] = round(d[k] + r.get(k,0), 4)
            d[r['verdict']] += 1
        obl_meta = []
        for o in obls:
            if o.id not in per_obl: continue
            d = per_obl[o.id]
            fr = next((r for r in results if r['obligation']==o.id and 'functions' in r), None)
            obl_meta.append(dict(id=o.id, bounds=o.bounds[a.tier] if isinstance(o.bounds,dict) else o.bounds,
                                 functions=fr['functions'] if fr else {}, stubs=o.stubs, outside_claim=o.out, **d))
        samples = []
        for r in results:
            for s in r.get('samples',[])[:1]:
                if len(samples) < 6: samples.append(dict(obligation=r['obligation'], param=r['param'], path=s))
        if not samples:
            samples = [dict(obligation=r['obligation'], param=r['param']) for r in results[:3]]
        n_replayed = sum(1 for r in results for v in r['violations'] if v['replayed'])
        selftests = getattr(mod, 'SELFTESTS_RUN', 0)
        tot = lambda k: sum(r.get(k,0) for r in results)
        ev = dict(
            property_id=prop, tier=a.tier, seed=seed, level=LEVEL,
            coverage=dict(
                states=max(1,int(tot('paths'))), transitions=max(1,int(tot('branches'))+int(tot('checks'))),
                traces_validated_against_impl=int(n_replayed)+int(sum(r.get('validated',0) for r in results)),
                samples=samples,
                obligations=len(results), discharged=sum(1 for r in results if r['verdict'] in ('holds',)),
                counterexample_tasks=sum(1 for r in results if r['verdict']=='counterexample'),
                inconclusive=[dict(obligation=r['obligation'], param=r['param'], reason=r['inconclusive'])
                              for r in results if r['verdict'] in ('inconclusive','error')],
                solver_queries=int(tot('queries')), solver_s=round(tot('solver_s'),3),
                paths_reaching_assertion=int(tot('reached')),
                per_obligation=obl_meta,
                known_findings_hit=n_known,
                exhaustive=(n_incon==0 and n_err==0),
                explanation=getattr(mod,'EXPLANATION',''),
                checker_cmd=f"./check {prop} --tier {a.tier}",
            ),
            assumptions=list(getattr(mod,'ASSUMPTIONS',[])),
            wall_s=round(wall,3), violations=n_viol)
        with open(os.path.join(HERE,'evidence',f"{prop}.json"),'w') as f:
            json.dump(ev, f, indent=1, default=str)
    ok = sum(1 for r in results if r['verdict']=='holds')
    print(f"{prop} tier={a.tier}: tasks={len(results)} holds={ok} violations={n_viol} known={n_known} "
          f"inconclusive={n_incon} errors={n_err} paths={sum(r.get('paths',0) for r in results)} "
          f"queries={sum(r.get('queries',0) for r in results)} wall={wall:.1f}s")
    sys.exit(exit_code)

if __name__ == '__main__':
    main()
